(** C05: reconfiguring the live server never races with or stalls DNS serving
    -- the part a proof can carry: the locking discipline.  Statements only;
    proofs in Proofs/Conc.v (generic, proved once), Proofs/LockTable.v
    (lifting) and Proofs/LockTableInst.v (the table regenerated from the
    current source, re-checked on every run). *)
From Coq Require Import List String Bool Arith.
From AGH Require Import Base.Conc Model.Guards Proofs.Conc Proofs.LockTable Proofs.LockTablePairs Proofs.LockTableWhole Gen.LockTable Proofs.LockTableInst.
From AGH Require Import Proofs.ConcGate Proofs.LockTableGate Proofs.LockTableGateGen Gen.LockTableAcq Proofs.LockTableGateInst.
Import ListNotations.
Local Open Scope string_scope.
Local Open Scope list_scope.

(** Generic, any number of threads, any event lists: if every access happens
    under the guard of its field (write mode for writes), no interleaving
    reaches a state with two threads about to perform conflicting accesses. *)
Theorem C05_well_locked_race_free : well_locked_race_free_statement.
Proof. exact well_locked_race_free. Qed.
Print Assumptions C05_well_locked_race_free.

(** The same with several guards per field (writes hold all, reads any). *)
Theorem C05_well_locked_m_race_free : well_locked_m_race_free_statement.
Proof. exact well_locked_m_race_free. Qed.
Print Assumptions C05_well_locked_m_race_free.

(** ... and with fields nobody writes, which may be read without a lock. *)
Theorem C05_well_locked_ro_race_free : well_locked_ro_race_free_statement.
Proof. exact well_locked_ro_race_free. Qed.
Print Assumptions C05_well_locked_ro_race_free.

(** Generic: nested acquisitions strictly increasing in rank (hence no read
    re-entrancy), releases matched, nothing held at the end => no reachable
    state has all unfinished threads blocked, writer preference included. *)
Theorem C05_ranked_no_deadlock : ranked_no_deadlock_statement.
Proof. exact ranked_no_deadlock. Qed.
Print Assumptions C05_ranked_no_deadlock.

(** The machine can race and can deadlock when the discipline is broken (the
    two definitions are not vacuous). *)
Theorem C05_race_possible :
  exists s, reachable (init [[Wr "f"]; [Rd "f"]]) s /\ race s.
Proof. exact race_possible. Qed.
Print Assumptions C05_race_possible.

Theorem C05_deadlock_possible :
  exists s,
    reachable (init [[Acq "a" W; Acq "b" W; Rel "b" W; Rel "a" W];
                     [Acq "b" W; Acq "a" W; Rel "a" W; Rel "b" W]]) s /\
    deadlocked s.
Proof. exact deadlock_possible. Qed.
Print Assumptions C05_deadlock_possible.

(** A read lock re-acquired by its holder deadlocks against a writer that
    arrives in between (the nested serverLock.RLock finding). *)
Theorem C05_reentrant_read_deadlock_possible :
  exists s,
    reachable (init [[Acq "l" R; Acq "l" R; Rel "l" R; Rel "l" R];
                     [Acq "l" W; Rel "l" W]]) s /\
    deadlocked s.
Proof. exact reentrant_read_deadlock_possible. Qed.
Print Assumptions C05_reentrant_read_deadlock_possible.

(** Instance, on the table extracted from the current source: every access
    site outside the known findings holds the guards of its field (or reads a
    field that has no write site at all); the
    acquired-while-held pairs outside the known findings admit a strictly
    increasing ranking; the translator resolved every lock receiver and
    function value it met. *)
Theorem C05_discipline_holds :
  forallb (access_ok_ro ro) checked_accesses = true /\
  forallb (order_ok (rank_of ranks)) checked_lock_order = true /\
  unresolved = [].
Proof. exact discipline_holds. Qed.
Print Assumptions C05_discipline_holds.

(** ... hence no race in any interleaving of any threads conforming to the
    extracted table ... *)
Theorem C05_no_race : forall progs,
  Forall (fun p => conforms checked_accesses [] p = true) progs ->
  forall s, reachable (init progs) s -> ~ race s.
Proof. exact no_race. Qed.
Print Assumptions C05_no_race.

(** ... and no deadlock in any interleaving of threads whose nested
    acquisitions are all in the extracted order table. *)
Theorem C05_no_deadlock : forall progs,
  Forall (fun p => conforms_order checked_lock_order [] p = true) progs ->
  forall s, reachable (init progs) s -> ~ deadlocked s.
Proof. exact no_deadlock. Qed.
Print Assumptions C05_no_deadlock.

(** Explicit, pairwise form of the race half.  Take any number of threads that
    only release what they hold (nothing else is assumed: they may run through
    the access sites listed as findings) and any schedule.  Whenever thread 1
    has executed the prefix [d1] of its program and thread 2 the prefix [d2] of
    its own, they are not both at access sites [a1], [a2] of the checked table
    (holding at least the locks the table lists there) that touch the same
    field with at least one write.  So every race of the abstract machine
    involves an access that is not a checked table entry. *)
Theorem C05_checked_sites_never_race :
  forall progs, Forall (fun p => balanced [] p = true) progs ->
  forall s, reachable (init progs) s ->
  forall pre t1 mid t2 post, threads s = pre ++ t1 :: mid ++ t2 :: post ->
  forall p1 p2 d1 d2,
    nth_error progs (List.length pre) = Some p1 ->
    nth_error progs (List.length pre + S (List.length mid)) = Some p2 ->
    p1 = d1 ++ rest t1 -> p2 = d2 ++ rest t2 ->
  forall a1 a2, In a1 checked_accesses -> In a2 checked_accesses ->
    a_field a1 = a_field a2 -> (a_write a1 || a_write a2) = true ->
    subset_held (a_held a1) (held_after [] d1) = true ->
    subset_held (a_held a2) (held_after [] d2) = true ->
    False.
Proof. exact checked_sites_exclusive. Qed.
Print Assumptions C05_checked_sites_never_race.

(** The generic statement behind it, for any table that passes the check. *)
Theorem C05_sites_exclusive : forall ro tbl,
  forallb (access_ok_ro ro) tbl = true ->
  forall progs, Forall (fun p => balanced [] p = true) progs ->
  forall s, reachable (init progs) s ->
  forall pre t1 mid t2 post, threads s = pre ++ t1 :: mid ++ t2 :: post ->
  forall p1 p2 d1 d2,
    nth_error progs (List.length pre) = Some p1 ->
    nth_error progs (List.length pre + S (List.length mid)) = Some p2 ->
    p1 = d1 ++ rest t1 -> p2 = d2 ++ rest t2 ->
  forall a1 a2, In a1 tbl -> In a2 tbl ->
    a_field a1 = a_field a2 -> (a_write a1 || a_write a2) = true ->
    subset_held (a_held a1) (held_after [] d1) = true ->
    subset_held (a_held a2) (held_after [] d2) = true ->
    False.
Proof. exact sites_exclusive. Qed.
Print Assumptions C05_sites_exclusive.

(** The premises are satisfiable up to the last one (a thread at a write site
    holding its guard, the other still in front of the lock); that the checked
    table contains write sites at all is shown by [C05_conforming_thread]. *)
Example C05_sites_exclusive_example :
  let tbl := [Access "r" "fn" "querylog.queryLog.buffer" true
                [("querylog.queryLog.bufferLock", W)] "x.go:1"] in
  let p := [Acq "querylog.queryLog.bufferLock" W; Wr "querylog.queryLog.buffer";
            Rel "querylog.queryLog.bufferLock" W] in
  forallb (access_ok_ro (never_written tbl)) tbl = true /\
  Forall (fun p => balanced [] p = true) [p; p] /\
  subset_held [("querylog.queryLog.bufferLock", W)]
    (held_after [] [Acq "querylog.queryLog.bufferLock" W]) = true /\
  subset_held [("querylog.queryLog.bufferLock", W)] (held_after [] []) = false.
Proof. exact sites_exclusive_example. Qed.
Print Assumptions C05_sites_exclusive_example.

(** Explicit form of the deadlock half: every cycle of the acquired-while-held
    relation extracted from the current source (a re-entrant acquisition is a
    cycle of length one) goes through a pair that is listed as a known
    finding: the listed cycles are the only ones. *)
Theorem C05_only_listed_lock_cycles :
  forall c, incl c lock_order -> cycle c ->
  exists o, In o c /\ listed known_keys (order_key o) = true.
Proof. exact lock_cycles_listed. Qed.
Print Assumptions C05_only_listed_lock_cycles.

Example C05_cycle_example :
  let ab := OrderPair "r" "f" ("a", W) ("b", W) "x.go:1" in
  let ba := OrderPair "r" "g" ("b", W) ("a", W) "x.go:2" in
  let ll := OrderPair "r" "h" ("l", R) ("l", R) "x.go:3" in
  cycle [ab; ba] /\ cycle [ll] /\ ~ cycle [ab].
Proof. exact cycle_example. Qed.
Print Assumptions C05_cycle_example.

(** Whole-table form (round 3): the threads conform to the WHOLE table
    extracted from the current source (every access is one of its access sites
    with at least the locks listed there, every nested acquisition one of its
    acquired-while-held pairs), listed findings included.

    Nothing is listed for the current source, so the statement in force is the
    strongest one: for any number of such threads and any schedule no reachable
    state has two threads at conflicting accesses to a guarded field and no
    reachable state is deadlocked; and the extracted acquired-while-held
    relation has no cycle at all (re-entrant acquisitions are cycles of length
    one).  It is stated with the emptiness of the list as a premise and as a
    computed test, so that the instance stays provable on the day a finding is
    listed; [nothing_listed known_keys] evaluates to [true] today (see the
    evidence, lock_table.known_findings_listed = []). *)
Theorem C05_current_source_safe :
  known_keys = [] ->
  (forall progs,
     Forall (fun p => conforms accesses [] p = true /\ conforms_order lock_order [] p = true) progs ->
     forall s, reachable (init progs) s -> ~ race s /\ ~ deadlocked s) /\
  (forall c, incl c lock_order -> ~ cycle c).
Proof. exact current_source_safe. Qed.
Print Assumptions C05_current_source_safe.

Theorem C05_current_source_safe_now :
  if nothing_listed known_keys then
    (forall progs,
       Forall (fun p => conforms accesses [] p = true /\ conforms_order lock_order [] p = true) progs ->
       forall s, reachable (init progs) s -> ~ race s /\ ~ deadlocked s) /\
    (forall c, incl c lock_order -> ~ cycle c)
  else True.
Proof. exact current_source_safe_now. Qed.
Print Assumptions C05_current_source_safe_now.

(** With listed pairs: a deadlock is reachable only if some thread GOES THROUGH
    a listed pair: its program is [d ++ Acq l m :: r], it holds [y] after [d],
    [o] is a pair (y, l) of the extracted relation listed as a known finding,
    and so is every other pair (y, l).  ([C05_only_listed_lock_cycles] lifted
    through [C05_ranked_no_deadlock] on the sub-order without the listed
    pairs.) *)
Theorem C05_deadlock_goes_through_listed_pair :
  forall progs, Forall (fun p => conforms_order lock_order [] p = true) progs ->
  forall s, reachable (init progs) s -> deadlocked s ->
  exists p, In p progs /\
  exists d l m r y o,
    p = d ++ Acq l m :: r /\
    In y (held_after [] d) /\
    In o lock_order /\ fst (o_held o) = fst y /\ fst (o_acq o) = l /\
    listed known_keys (order_key o) = true /\
    (forall o', In o' lock_order -> fst (o_held o') = fst y -> fst (o_acq o') = l ->
                listed known_keys (order_key o') = true).
Proof. exact deadlock_goes_through_listed_pair. Qed.
Print Assumptions C05_deadlock_goes_through_listed_pair.

(** Generic in the table and the list. *)
Theorem C05_deadlock_uses_listed_pair : forall rank known ord,
  forallb (order_ok rank) (checked_order known ord) = true ->
  forall progs, Forall (fun p => conforms_order ord [] p = true) progs ->
  forall s, reachable (init progs) s -> deadlocked s ->
  exists p, In p progs /\ uses_listed known ord [] p.
Proof. exact deadlock_uses_listed_pair. Qed.
Print Assumptions C05_deadlock_uses_listed_pair.

Theorem C05_whole_table_safe : forall ro rank tbl ord,
  forallb (access_ok_ro ro) (checked [] tbl) = true ->
  forallb (order_ok rank) (checked_order [] ord) = true ->
  (forall progs,
     Forall (fun p => conforms tbl [] p = true /\ conforms_order ord [] p = true) progs ->
     forall s, reachable (init progs) s -> ~ race s /\ ~ deadlocked s) /\
  (forall c, incl c ord -> ~ cycle c).
Proof. exact whole_table_safe. Qed.
Print Assumptions C05_whole_table_safe.

(** Non-vacuity: with one listed ABBA pair both threads conform to the whole
    order, the first also to the checked one, and the second goes through the
    listed pair (the deadlock itself is [C05_deadlock_possible]); a small table
    satisfies the premises of [C05_whole_table_safe] with a conforming thread;
    and a thread shaped like POST /control/clients/add conforms to the whole
    real table. *)
Example C05_uses_listed_example :
  let ab := OrderPair "r" "f" ("a", W) ("b", W) "x.go:1" in
  let ba := OrderPair "r" "g" ("b", W) ("a", W) "x.go:2" in
  let known := ["b<a@g"] in
  let ord := [ab; ba] in
  let p1 := [Acq "a" W; Acq "b" W; Rel "b" W; Rel "a" W] in
  let p2 := [Acq "b" W; Acq "a" W; Rel "a" W; Rel "b" W] in
  forallb (order_ok (rank_of (computed_ranks (checked_order known ord)))) (checked_order known ord) = true /\
  conforms_order ord [] p1 = true /\ conforms_order ord [] p2 = true /\
  conforms_order (checked_order known ord) [] p1 = true /\
  uses_listed known ord [] p2.
Proof. exact uses_listed_example. Qed.
Print Assumptions C05_uses_listed_example.

Example C05_whole_table_example :
  let tbl := [Access "r" "fn" "querylog.queryLog.buffer" true
                [("querylog.queryLog.bufferLock", W)] "x.go:1"] in
  let ord := [OrderPair "r" "fn" ("dnsforward.Server.serverLock", R)
                ("querylog.queryLog.bufferLock", W) "x.go:2"] in
  let p := [Acq "dnsforward.Server.serverLock" R; Acq "querylog.queryLog.bufferLock" W;
            Wr "querylog.queryLog.buffer"; Rel "querylog.queryLog.bufferLock" W;
            Rel "dnsforward.Server.serverLock" R] in
  forallb (access_ok_ro (never_written tbl)) (checked [] tbl) = true /\
  forallb (order_ok (rank_of (computed_ranks ord))) (checked_order [] ord) = true /\
  conforms tbl [] p = true /\ conforms_order ord [] p = true.
Proof. exact whole_table_example. Qed.
Print Assumptions C05_whole_table_example.

Example C05_conforming_whole_thread :
  let p := [Acq "home.homeContext.controlLock" W; Acq "client.Storage.mu" W;
            Wr "client.index.nameToUID"; Rel "client.Storage.mu" W;
            Rel "home.homeContext.controlLock" W] in
  conforms accesses [] p = true /\ conforms_order lock_order [] p = true.
Proof. exact conforming_whole_thread. Qed.
Print Assumptions C05_conforming_whole_thread.

Example C05_conforming_thread :
  conforms checked_accesses []
    [Acq "home.homeContext.controlLock" W; Acq "client.Storage.mu" W;
     Wr "client.index.nameToUID"; Rel "client.Storage.mu" W;
     Rel "home.homeContext.controlLock" W] = true.
Proof. exact conforming_thread. Qed.
Print Assumptions C05_conforming_thread.

Example C05_conforming_order_thread :
  conforms_order checked_lock_order []
    [Acq "home.homeContext.controlLock" W; Acq "client.Storage.mu" W;
     Rel "client.Storage.mu" W; Rel "home.homeContext.controlLock" W] = true.
Proof. exact conforming_order_thread. Qed.
Print Assumptions C05_conforming_order_thread.

(** * Round 4: external blocking resources as locks, and the gate-lock criterion

    A bbolt write transaction holds the database's writer lock from
    db.Begin(true) to tx.Commit() / tx.Rollback(); the translator makes it an
    abstract lock of the table ("stats.StatsCtx.db.writer", "home.Auth.db.writer",
    ...) and emits every acquisition site with ALL locks held there
    (Gen/LockTableAcq.v).  With it the statistics module has a lock-order cycle
    on the correct source (flush: currMu, then the writer; readers: the writer,
    then currMu), harmless only because both orders happen under confMu, which
    the flush holds exclusively.  [conflicts]: two lock sets share a lock that
    one of them holds in write mode; only sites whose lock sets do not conflict
    can be occupied by two threads at once. *)

(** Generic, about one state of the machine: in a deadlocked state, whatever
    ranking is proposed, some blocked thread is in an acquisition that does not
    ascend from everything it holds (ghost lock sets of the invariant). *)
Theorem C05_deadlock_needs_descent :
  forall (P : held -> list event -> Prop), (forall h, P h [] -> h = []) ->
  forall (s : state) (its : list ithread),
    map snd its = threads s ->
    Forall (fun it => P (fst it) (rest (snd it)) /\ ann_ok (snd it)) its ->
    (forall l, lockok (locks s l) (total (l, W) its) (total (l, R) its) (ptotal l its)) ->
    deadlocked s ->
    forall rank : lock -> nat,
    exists it l m r,
      In it its /\ rest (snd it) = Acq l m :: r /\ ascending rank (fst it) l = false.
Proof. exact deadlock_needs_descent. Qed.
Print Assumptions C05_deadlock_needs_descent.

(** ... and two distinct threads of one reachable state never hold conflicting
    lock sets. *)
Theorem C05_threads_never_conflict : forall (s : state) (its : list ithread),
  (forall l, lockok (locks s l) (total (l, W) its) (total (l, R) its) (ptotal l its)) ->
  forall a b, In a its -> In b its -> a = b \/ conflicts (fst a) (fst b) = false.
Proof. exact its_pair. Qed.
Print Assumptions C05_threads_never_conflict.

(** The gate-lock theorem, generic in the table of acquisition sites: if every
    site either ascends in one global ranking or has a ranking for the
    sub-table of the sites compatible with it, then for any number of threads
    whose acquisitions are sites of the table (with exactly the listed lock
    set) and any schedule no reachable state is deadlocked ... *)
Theorem C05_gated_no_deadlock : forall rank0 rkd sites,
  gated_with rank0 rkd sites = true ->
  forall progs, Forall (fun p => conforms_sites sites [] p = true) progs ->
  forall s, reachable (init progs) s -> ~ deadlocked s.
Proof. exact gated_no_deadlock. Qed.
Print Assumptions C05_gated_no_deadlock.

(** ... and every cycle of sites (each acquires a lock the next one holds; a
    re-entrant acquisition is a cycle of one site) contains two sites with
    conflicting lock sets: a common gate, held exclusively by one of them. *)
Theorem C05_gated_cycles_conflict : forall rank0 rkd sites,
  gated_with rank0 rkd sites = true ->
  forall c, incl c sites -> site_cycle c -> has_conflict c = true.
Proof. exact gated_cycles_conflict. Qed.
Print Assumptions C05_gated_cycles_conflict.

(** The declarative form, for an ARBITRARY table: if every cycle of sites
    contains two sites with conflicting lock sets, no reachable state of any
    number of conforming threads is deadlocked.  (In a deadlocked state the
    wait-for relation contains a cycle of distinct threads; their sites form a
    cycle of sites; two of them would conflict; two distinct threads of one
    state never do.)  [C05_gated_no_deadlock] is a corollary through
    [C05_gated_cycles_conflict]. *)
Theorem C05_gate_lock_general :
  forall sites,
    (forall c, incl c sites -> site_cycle c -> has_conflict c = true) ->
  forall progs, Forall (fun p => conforms_sites sites [] p = true) progs ->
  forall s, reachable (init progs) s -> ~ deadlocked s.
Proof. exact gate_lock_general. Qed.
Print Assumptions C05_gate_lock_general.

(** Non-vacuity.  The shape of the statistics module (gate g; a = unit, b =
    writer): with the flush holding g exclusively the table passes, both
    threads conform, the cycle a . b . a is there and no single ranking orders
    it; with the flush holding g shared (seeded change C05-G) the check fails,
    and the machine does reach a deadlocked state. *)
Example C05_gated_example :
  let sites := ex_sites W in
  gated_with (ex_rank0 sites) (ex_rkd sites) sites = true /\
  conforms_sites sites [] (ex_flush W) = true /\ conforms_sites sites [] ex_read = true /\
  site_cycle [nth 2 sites (AcqSite "" "" [] ("", W) ""); nth 5 sites (AcqSite "" "" [] ("", W) "")] /\
  forallb (site_ascending (ex_rank0 sites)) sites = false.
Proof. exact gated_example. Qed.
Print Assumptions C05_gated_example.

Example C05_ungated_example :
  let sites := ex_sites R in
  gated_with (ex_rank0 sites) (ex_rkd sites) sites = false /\
  conforms_sites sites [] (ex_flush R) = true /\ conforms_sites sites [] ex_read = true.
Proof. exact ungated_example. Qed.
Print Assumptions C05_ungated_example.

Theorem C05_shared_gate_deadlock_possible :
  exists s, reachable (init [ex_flush R; ex_read]) s /\ deadlocked s.
Proof. exact shared_gate_deadlock_possible. Qed.
Print Assumptions C05_shared_gate_deadlock_possible.

(** Instance, re-checked on every run on the sites extracted from the current
    source: the check passes (the ranking hints of the translator are only
    checked) ... *)
Theorem C05_acquisitions_gated :
  gated_with gate_rank0 gate_rkd checked_acquisitions = true.
Proof. exact acquisitions_gated. Qed.
Print Assumptions C05_acquisitions_gated.

(** ... hence no deadlock for threads whose acquisitions are checked sites,
    bbolt write transactions included, and every cycle of checked sites
    contains a conflicting pair. *)
Theorem C05_no_deadlock_gated : forall progs,
  Forall (fun p => conforms_sites checked_acquisitions [] p = true) progs ->
  forall s, reachable (init progs) s -> ~ deadlocked s.
Proof. exact no_deadlock_gated. Qed.
Print Assumptions C05_no_deadlock_gated.

Theorem C05_checked_site_cycles_conflict :
  forall c, incl c checked_acquisitions -> site_cycle c -> has_conflict c = true.
Proof. exact checked_site_cycles_conflict. Qed.
Print Assumptions C05_checked_site_cycles_conflict.

(** Whole table, in force when nothing is listed (today). *)
Theorem C05_current_source_gated_now :
  if nothing_listed known_keys then
    (forall progs, Forall (fun p => conforms_sites acquisitions [] p = true) progs ->
     forall s, reachable (init progs) s -> ~ deadlocked s) /\
    (forall c, incl c acquisitions -> site_cycle c -> has_conflict c = true)
  else True.
Proof. exact current_source_gated_now. Qed.
Print Assumptions C05_current_source_gated_now.

(** Non-vacuity on the real table: the statistics flush and the reader of
    GET /control/stats, with the write transaction as a lock, conform to the
    extracted sites; the table contains the two-site cycle currMu . db.writer .
    currMu, its two sites conflict (confMu, exclusive in the flush), and the
    global ranking does not order both. *)
Example C05_stats_threads_conform :
  conforms_sites acquisitions [] p_stats_flush = true /\
  conforms_sites acquisitions [] p_stats_read = true.
Proof. exact stats_threads_conform. Qed.
Print Assumptions C05_stats_threads_conform.

Example C05_stats_gated_cycle_present :
  exists d1 d2, In d1 acquisitions /\ In d2 acquisitions /\ site_cycle [d1; d2] /\
    conflicts (s_held d1) (s_held d2) = true /\
    forallb (site_ascending gate_rank0) [d1; d2] = false.
Proof. exact stats_gated_cycle_present. Qed.
Print Assumptions C05_stats_gated_cycle_present.

(** * Round 5: stall-freedom (Proofs/ConcLive.v, LockTableLive.v)

    "Never stalls DNS serving".  The theorems above are safety statements (no
    race, no deadlock).  A thread of the machine is a FINITE list of events,
    so every step consumes something and no scheduler can keep the machine
    running for ever; no fairness assumption is needed.  [stall_free s0]: from
    every reachable state, every run is bounded by the events left, every run
    that cannot be extended ends with ALL threads through their programs
    (every acquisition was granted, every critical section left), and such a
    run exists. *)
From AGH Require Import Proofs.ConcLive Proofs.LockTableLive.
From AGH Require Base.Run Model.Rewrites Proofs.Rewrites.

Theorem C05_no_deadlock_stall_free :
  forall s0, (forall s, reachable s0 s -> ~ deadlocked s) -> stall_free s0.
Proof. exact no_deadlock_stall_free. Qed.
Print Assumptions C05_no_deadlock_stall_free.

(** The three clauses of [stall_free], spelt out. *)
Theorem C05_stall_free_unfolded :
  forall s0, stall_free s0 ->
  forall s, reachable s0 s ->
    (forall n s', steps n s s' -> n + measure s' <= measure s) /\
    (forall n s', steps n s s' -> stuck s' -> forall th, In th (threads s') -> rest th = []) /\
    (exists n s', steps n s s' /\ forall th, In th (threads s') -> rest th = []).
Proof. exact (fun s0 H => H). Qed.
Print Assumptions C05_stall_free_unfolded.

(** The length of any run from the start: at most twice the number of events
    plus the number of threads. *)
Theorem C05_run_length_bound :
  forall progs n s', steps n (init progs) s' ->
    n <= list_sum (map (fun p => 2 * List.length p + 1) progs).
Proof.
  exact (fun progs n s' H =>
    Nat.le_trans _ _ _ (Nat.le_add_r n (measure s'))
      (eq_ind _ (fun m => n + measure s' <= m) (steps_bounded n _ s' H) _ (measure_init progs))).
Qed.
Print Assumptions C05_run_length_bound.

Theorem C05_ranked_stall_free :
  forall (rank : lock -> nat) (progs : list (list event)),
    Forall (fun p => ranked rank [] p = true) progs -> stall_free (init progs).
Proof. exact ranked_stall_free. Qed.
Print Assumptions C05_ranked_stall_free.

Theorem C05_gated_stall_free : forall rank0 rkd sites,
  gated_with rank0 rkd sites = true ->
  forall progs, Forall (fun p => conforms_sites sites [] p = true) progs ->
  stall_free (init progs).
Proof. exact gated_stall_free. Qed.
Print Assumptions C05_gated_stall_free.

(** Instance on the sites regenerated from the current source. *)
Theorem C05_no_stall_gated : forall progs,
  Forall (fun p => conforms_sites checked_acquisitions [] p = true) progs ->
  stall_free (init progs).
Proof. exact no_stall_gated. Qed.
Print Assumptions C05_no_stall_gated.

Theorem C05_current_source_stall_free_now :
  if nothing_listed known_keys then
    forall progs, Forall (fun p => conforms_sites acquisitions [] p = true) progs ->
    stall_free (init progs)
  else True.
Proof. exact current_source_stall_free_now. Qed.
Print Assumptions C05_current_source_stall_free_now.

(** Non-vacuity. *)
Example C05_stall_free_example :
  let progs := [[Acq "a" W; Acq "b" R; Rd "f"; Rel "b" R; Rel "a" W];
                [Acq "a" R; Acq "b" W; Rel "b" W; Rel "a" R]]%string in
  stall_free (init progs) /\ measure (init progs) = 20.
Proof. exact stall_free_example. Qed.
Print Assumptions C05_stall_free_example.

Example C05_stats_threads_never_stall :
  stall_free (init [p_stats_flush; p_stats_read; p_stats_read]).
Proof. exact stats_threads_never_stall. Qed.
Print Assumptions C05_stats_threads_never_stall.

(** The premise hidden in "a thread is a finite list that releases what it
    took" is needed: a reader of confMu that never releases (a request that
    does not come back from its critical section: seeded change C05-I), an
    admin write, and the next reader is blocked behind the pending writer:
    nothing can move and two threads are not through. *)
Example C05_holder_never_releases_stalls :
  exists s,
    reachable (init [[Acq "confMu" R];
                     [Acq "confMu" W; Wr "rewrites"; Rel "confMu" W];
                     [Acq "confMu" R; Rd "rewrites"; Rel "confMu" R]]%string) s /\
    stuck s /\ ~ finished s /\ deadlocked s /\
    threads s = [TH false [];
                 TH true [Acq "confMu" W; Wr "rewrites"; Rel "confMu" W];
                 TH false [Acq "confMu" R; Rd "rewrites"; Rel "confMu" R]]%string.
Proof. exact holder_never_releases. Qed.
Print Assumptions C05_holder_never_releases_stalls.

(** That premise, for the one loop of the request path whose bound depends on
    admin data (the CNAME chase of processRewrites, run under confMu.RLock),
    is C06's termination theorem, restated here so that the dependency is
    explicit: the chase returns for EVERY table (cycles of any shape,
    wildcard-only ones included), every name and every type.  The tie of that
    model to the code is C06's; the C05 hostile-data harness searches the same
    on the running server (a query without a result is confirmed by a replay
    on a fresh server). *)
Theorem C05_rewrite_chase_returns :
  forall sort, (forall l, Permutation.Permutation (sort l) l) ->
  forall (tbl : list AGH.Model.Rewrites.entry) (host : AGH.Base.Run.bytes) (qt : BinNums.N),
    AGH.Model.Rewrites.process_rewrites sort tbl host qt <> None /\
    forall enabled, AGH.Model.Rewrites.check_host sort enabled tbl host qt <> None.
Proof. exact AGH.Proofs.Rewrites.terminates. Qed.
Print Assumptions C05_rewrite_chase_returns.


(** * Round 6: every critical section ends (lock balance)

    [C05_no_deadlock_stall_free] and its corollaries are about threads that
    are finite event lists; what that representation cannot contain was, until
    now, only NAMED as a premise ("a thread releases what it took").  Its
    syntactic part is an obligation now: on every path from an acquisition to
    an exit of the SAME function the lock is released (or the function is a
    declared hand-over).  tools/locktable/balance.go explores every path of
    every function of the repository's packages up to the lock state and
    emits one witness per exit and state (Gen/LockTableBalance.v); Coq
    re-evaluates [sections_end] on every witness. *)

From AGH Require Import Model.LockBalance Proofs.ConcBalance Proofs.LockTableBalance Gen.LockTableBalance Proofs.LockTableBalanceInst.

(** Instance, re-checked on every run: no function path of the current source
    returns or panics with a lock it acquired, no hand-over is undeclared,
    nothing is undecided. *)
Theorem C05_every_section_ends_syntactically :
  balance_ok balance_fns balance_leaks balance_unresolved balance_handovers balance_allowed = true.
Proof. exact every_section_ends_syntactically. Qed.
Print Assumptions C05_every_section_ends_syntactically.

(** The same spelt out: every path found through every plain function is a
    list of sections that end; it is neutral whatever its caller holds and can
    be inserted into any caller's path. *)
Theorem C05_current_source_sections_end :
  balance_leaks = [] /\ balance_unresolved = [] /\
  forall f, In f balance_fns -> is_plain f = true ->
  forall x, In x (bf_exits f) ->
    sections_end (be_events x) = true /\
    inlined (be_events x) /\
    forall h, balanced h (be_events x) = true /\ held_after h (be_events x) = h.
Proof. exact current_source_sections_end. Qed.
Print Assumptions C05_current_source_sections_end.

(** Generic in the table. *)
Theorem C05_balance_ok_sections_end : forall fns leaks unres hs al,
  balance_ok fns leaks unres hs al = true ->
  leaks = [] /\ unres = [] /\
  forall f, In f fns -> is_plain f = true ->
  forall x, In x (bf_exits f) ->
    sections_end (be_events x) = true /\
    inlined (be_events x) /\
    forall h, balanced h (be_events x) = true /\ held_after h (be_events x) = h.
Proof. exact balance_ok_sections_end. Qed.
Print Assumptions C05_balance_ok_sections_end.

(** Hand-overs and inlined closures: neutral in the declared context. *)
Theorem C05_balance_ok_handover : forall fns leaks unres hs al,
  balance_ok fns leaks unres hs al = true ->
  forall f, In f fns -> forall x, In x (bf_exits f) ->
    sections_end (acqs (be_entry x) ++ be_events x ++ rels (be_exit x)) = true.
Proof. exact balance_ok_handover. Qed.
Print Assumptions C05_balance_ok_handover.

(** From functions to goroutines: a list whose sections end is neutral in any
    context, so a thread assembled from such per-function paths by inserting
    the callee's path at the call, to any depth, is a thread whose sections
    end. *)
Theorem C05_sections_end_neutral : forall p,
  sections_end p = true -> forall h, balanced h p = true /\ held_after h p = h.
Proof. exact sections_end_neutral. Qed.
Print Assumptions C05_sections_end_neutral.

Theorem C05_function_balance_composes : forall p, inlined p -> sections_end p = true.
Proof. exact inlined_sections_end. Qed.
Print Assumptions C05_function_balance_composes.

Example C05_inlined_example :
  inlined ([Acq "serverLock" R; Rd "conf"; Rel "serverLock" R] ++
           [Acq "serverLock" R; Rd "tls"; Rel "serverLock" R] ++
           [Acq "serverLock" R; Rel "serverLock" R]) /\
  sections_end [Acq "serverLock" R; Rd "tls"] = false.
Proof. exact inlined_example. Qed.
Print Assumptions C05_inlined_example.

(** The corollary of [C05_no_deadlock_stall_free] for balanced finite
    threads: if no reachable state is deadlocked, the machine never stalls,
    and every run that cannot be extended ends with all threads through AND
    every mutex as at start-up: no writer, no reader, no pending writer.
    Whoever comes next (the query after the admin write) finds the locks
    free. *)
Theorem C05_balanced_threads_stall_free : forall progs,
  Forall (fun p => sections_end p = true) progs ->
  (forall s, reachable (init progs) s -> ~ deadlocked s) ->
  stall_free (init progs) /\
  (forall s, reachable (init progs) s ->
     forall n s', steps n s s' -> stuck s' ->
       finished s' /\
       forall l, writer (locks s' l) = false /\ readers (locks s' l) = 0 /\ pending (locks s' l) = 0).
Proof. exact balanced_threads_stall_free. Qed.
Print Assumptions C05_balanced_threads_stall_free.

(** The earlier premises contain balance: threads that pass the ranking check
    or conform to the acquisition sites end all their sections. *)
Theorem C05_ranked_sections_end : forall rank p, ranked rank [] p = true -> sections_end p = true.
Proof. exact ranked_sections_end. Qed.
Print Assumptions C05_ranked_sections_end.

Theorem C05_conforms_sites_sections_end : forall sites p,
  conforms_sites sites [] p = true -> sections_end p = true.
Proof. exact conforms_sites_sections_end. Qed.
Print Assumptions C05_conforms_sites_sections_end.

Theorem C05_gated_balanced_stall_free : forall rank0 rkd sites,
  gated_with rank0 rkd sites = true ->
  forall progs, Forall (fun p => conforms_sites sites [] p = true) progs ->
  stall_free (init progs) /\
  (forall s, reachable (init progs) s -> forall n s', steps n s s' -> stuck s' ->
     finished s' /\
     forall l, writer (locks s' l) = false /\ readers (locks s' l) = 0 /\ pending (locks s' l) = 0).
Proof. exact gated_balanced_stall_free. Qed.
Print Assumptions C05_gated_balanced_stall_free.

(** Non-vacuity: three balanced threads (two queries, one admin write under
    the control lock). *)
Example C05_balanced_stall_free_example :
  let progs := [[Acq "serverLock" R; Rd "conf"; Rel "serverLock" R];
                [Acq "controlLock" W; Acq "serverLock" W; Wr "conf"; Rel "serverLock" W; Rel "controlLock" W];
                [Acq "serverLock" R; Rd "conf"; Rel "serverLock" R]] in
  Forall (fun p => sections_end p = true) progs /\ stall_free (init progs).
Proof. exact balanced_stall_free_example. Qed.
Print Assumptions C05_balanced_stall_free_example.

(** The premise is needed, on the shape of seeded change C05-K: the request
    whose ClientID extraction returns between RLock and RUnlock, then POST
    /control/access/set, then the next query: the writer announces itself and
    waits for ever, the query waits behind the pending writer. *)
Example C05_leaked_read_lock_stalls :
  let leak := [Acq "dnsforward.Server.serverLock" R; Rd "dnsforward.Server.conf"] in
  let set_access := [Acq "dnsforward.Server.serverLock" W; Wr "dnsforward.Server.conf"; Rel "dnsforward.Server.serverLock" W] in
  let query := [Acq "dnsforward.Server.serverLock" R; Rd "dnsforward.Server.conf"; Rel "dnsforward.Server.serverLock" R] in
  sections_end leak = false /\ sections_end set_access = true /\ sections_end query = true /\
  exists s,
    reachable (init [leak; set_access; query]) s /\
    stuck s /\ ~ finished s /\
    threads s = [TH false []; TH true set_access; TH false query].
Proof. exact leaked_read_lock_stalls. Qed.
Print Assumptions C05_leaked_read_lock_stalls.

(** The check itself on small tables: the rows of the changed function fail at
    the exit that keeps the read lock; undeclared hand-overs, releases of what
    is not held, reported rows and undecided items fail. *)
Example C05_balance_examples :
  balance_ok [ex_fn_ok; ex_handover] [] []
    [("stats.finishTxn", [("stats.StatsCtx.db.writer", W)], [], "ends the caller's transaction")] [] = true /\
  fn_ok ex_fn_leak = false /\
  map exit_ok (bf_exits ex_fn_leak) = [true; false; true] /\
  balance_ok [ex_handover] [] [] [] [] = false /\
  fn_ok (BalFn "stats.finishTxn" "function" "" (bf_exits ex_handover)) = false /\
  fn_ok (BalFn "f" "function" "" [BalExit "return" "" [] [] [Rel "mu" W]]) = false /\
  balance_ok [ex_fn_ok] [BalLeak "leak" "f" ("mu", W) "a" "b"] [] [] [] = false /\
  balance_ok [ex_fn_ok] [] [("unresolved-balance@x", "pos")] [] [] = false /\
  balance_ok [BalFn "f" "allowed" "" [BalExit "return" "" [] [("mu", W)] [Acq "mu" W]]] [] [] [] [] = false /\
  balance_ok [BalFn "f" "allowed" "" [BalExit "return" "" [] [("mu", W)] [Acq "mu" W]]] [] [] []
    [("f", "unresolved-balance@f@mu", "the reason")] = true /\
  balance_ok [BalFn "f" "whatever" "" [BalExit "return" "" [] [("mu", W)] [Acq "mu" W]]] [] [] [] [] = false.
Proof. exact balance_examples. Qed.
Print Assumptions C05_balance_examples.

(** The real table is not empty and covers the ClientID extraction. *)
Example C05_balance_table_covers_clientid_extraction :
  existsb (fun f => String.eqb (bf_fn f) clientid_fn_name && is_plain f &&
                    existsb (fun x => negb (nil_b (be_events x))) (bf_exits f)) balance_fns = true /\
  Nat.leb 20 (List.length balance_fns) = true.
Proof. exact balance_table_covers_clientid_extraction. Qed.
Print Assumptions C05_balance_table_covers_clientid_extraction.


(** * Round 7: no blocking channel operation under a lock

    A goroutine that waits in a channel send / receive while it holds a mutex
    is not a finite list of lock events: whether the operation completes
    depends on another thread's later progress, which the machine cannot
    express.  The translator therefore lists every potentially blocking channel
    operation (send, receive, select without default, WaitGroup.Wait) that is
    reachable with a non-empty must-held lock set (Gen/LockTableChan.v); each
    must be justified, pair function@channel by pair, in
    tools/locktable/handover.json (blocking_ok). *)

From AGH Require Import Proofs.LockTableChan Gen.LockTableChan Proofs.LockTableChanInst.

Theorem C05_no_blocking_channel_op_under_lock : chan_ok chan_rows chan_justified = true.
Proof. exact no_blocking_channel_op_under_lock. Qed.
Print Assumptions C05_no_blocking_channel_op_under_lock.

Theorem C05_current_source_channel_ops_justified :
  forall r, In r chan_rows -> exists reason, In (chan_key r, reason) chan_justified.
Proof. exact current_source_channel_ops_justified. Qed.
Print Assumptions C05_current_source_channel_ops_justified.

Theorem C05_chan_ok_justified : forall rows just,
  chan_ok rows just = true ->
  forall r, In r rows -> exists reason, In (chan_key r, reason) just.
Proof. exact chan_ok_justified. Qed.
Print Assumptions C05_chan_ok_justified.

(** Why the rows matter, in the machine's own terms: seeded change C05-M with
    the full queue as a lock the worker holds while it works.  The request
    sends under serverLock.RLock, the worker's reverse lookup takes
    serverLock.RLock, an admin write closes the cycle through writer
    preference: deadlocked, and no ranking or gate excludes it. *)
Example C05_blocking_send_under_lock_deadlocks :
  let worker := [Acq "chan clientIPs" W; Acq "serverLock" R; Rel "serverLock" R; Rel "chan clientIPs" W] in
  let request := [Acq "serverLock" R; Acq "chan clientIPs" W; Rel "chan clientIPs" W; Rel "serverLock" R] in
  let admin := [Acq "serverLock" W; Wr "conf"; Rel "serverLock" W] in
  exists s, reachable (init [worker; request; admin]) s /\ deadlocked s.
Proof. exact blocking_send_under_lock_deadlocks. Qed.
Print Assumptions C05_blocking_send_under_lock_deadlocks.

Example C05_chan_ok_examples :
  let row := ChanRow "client.DefaultAddrProc.Process" "send" "client.DefaultAddrProc.clientIPs"
               [("client.DefaultAddrProc.clientIPsMu", W); ("dnsforward.Server.serverLock", R)]
               "internal/client/addrproc.go:231" "dns:dnsforward.Server.handleDNSRequest" in
  chan_ok [row] [] = false /\
  chan_ok [row] [("filtering.DNSFilter.Close@filtering.DNSFilter.done", "one send into a buffer of 1")] = false /\
  chan_ok [row] [("client.DefaultAddrProc.Process@client.DefaultAddrProc.clientIPs", "a reason")] = true /\
  chan_ok [] [] = true.
Proof. exact chan_ok_examples. Qed.
Print Assumptions C05_chan_ok_examples.


(** * Round 4: lease names that flow from the admin API into DNS answers

    (The DHCPv4 model is imported only here: its [state], [step], [event],
    [checked] would shadow those of the lock machine above.)

    "Every in-flight query still receives a well-formed response" includes the
    answers the server builds from state an admin request stored.  PTR queries
    for leased addresses are answered with <lease hostname>.<local domain>
    (dnsforward.processDHCPAddrs).  Over the DHCPv4 model of C10
    (Model/Dhcp4.v; [valid_hostname] is netutil.ValidateHostname on ASCII
    names: labels of 1..63 letters, digits and inner hyphens, at most 253
    octets, last label not all digits). *)

From AGH Require Import Base.Run Model.Dhcp4 Proofs.Dhcp4Wire.

(** What an accepted static-lease request stores. *)
Theorem C05_static_add_stores_valid : forall c mac ip host s s',
  static_add c mac ip host s = (s', RApi true) ->
  exists h, (h = [] \/ valid_hostname h = true) /\ In (Lease ip mac h true exp_zero) (leases s').
Proof. exact static_add_stores_valid. Qed.
Print Assumptions C05_static_add_stores_valid.

Theorem C05_static_update_stores_valid : forall c mac ip host s s',
  static_update c mac ip host s = (s', RApi true) ->
  exists h, valid_hostname h = true /\ In (Lease ip mac h true exp_zero) (leases s').
Proof. exact static_update_stores_valid. Qed.
Print Assumptions C05_static_update_stores_valid.

(** Any history of DHCP messages, static-lease requests, clock ticks and
    restarts from the empty server: every lease of the table and of the
    database file has an empty name or one that passes the validator. *)
Theorem C05_hosts_valid_reachable : forall c h,
  (forall l, In l (leases (run c h empty_state)) -> l_host l = [] \/ valid_hostname (l_host l) = true) /\
  (forall l, In l (disk (run c h empty_state)) -> l_host l = [] \/ valid_hostname (l_host l) = true).
Proof. exact hosts_valid_reachable. Qed.
Print Assumptions C05_hosts_valid_reachable.

(** A valid name with a valid local domain appended fits on the wire (every
    label 1..63 octets, at most 255 octets in wire format) when the two
    together stay within 253 octets ... *)
Theorem C05_valid_name_wire_ok : forall h sfx,
  valid_hostname h = true -> valid_hostname sfx = true ->
  (length h + length sfx + 1 <= 253)%nat ->
  wire_ok (ptr_target h sfx) = true.
Proof. exact valid_name_wire_ok. Qed.
Print Assumptions C05_valid_name_wire_ok.

(** ... and not otherwise: the validator alone does not make the answer
    well-formed (the name found by the lease harness on the real code: 250
    octets, accepted by add_static_lease; with ".lan" 256 octets on the wire). *)
Theorem C05_valid_name_too_long_refuted :
  exists h, valid_hostname h = true /\ valid_hostname lan = true /\
            wire_ok (ptr_target h lan) = false.
Proof. exact valid_name_too_long_refuted. Qed.
Print Assumptions C05_valid_name_too_long_refuted.

(** With the guard in processDHCPAddrs (the composed name must pass
    netutil.ValidateDomainName, else the lease is treated as nameless): every
    answer that is given fits, whatever octets the lease table holds. *)
Theorem C05_ptr_answer_wire_ok : forall host sfx t,
  ptr_answer host sfx = Some t -> wire_ok t = true.
Proof. exact ptr_answer_wire_ok. Qed.
Print Assumptions C05_ptr_answer_wire_ok.

Example C05_ptr_answer_examples :
  (ptr_answer [112; 114; 105; 110; 116; 101; 114] lan = Some [112; 114; 105; 110; 116; 101; 114; 46; 108; 97; 110] /\
   ptr_answer long_name lan = None /\
   ptr_answer [102; 46; 46; 100] lan = None /\
   ptr_answer (repeat 97 64) lan = None /\
   ptr_answer [102; 46] lan = None)%N.
Proof. exact ptr_answer_examples. Qed.
Print Assumptions C05_ptr_answer_examples.

From AGH Require Model.SvcbParams Proofs.SvcbParams.

(** * Round 9: answers synthesised from rule text

    An HTTPS / SVCB answer of a $dnsrewrite rule takes its parameters from the
    rule's text (internal/dnsforward/svcbmsg.go).  Model/SvcbParams.v: what
    net.ParseIP makes of an address text is nothing, an address with a 4-byte
    form ([PFour]) or an IPv6 address proper ([PSix]); miekg/dns packs an
    SVCBIPv4Hint only with the former and an SVCBIPv6Hint only with the
    latter, and a response with a parameter that cannot be packed is not sent
    at all.  For EVERY text: *)
Theorem C05_produced_hint_has_family_of_key : forall v6key p h,
  SvcbParams.hint_handler v6key p = Some h ->
  if v6key then h = SvcbParams.Hint6 SvcbParams.PSix else h = SvcbParams.Hint4 SvcbParams.PFour.
Proof. exact Proofs.SvcbParams.produced_hint_has_family_of_key. Qed.
Print Assumptions C05_produced_hint_has_family_of_key.

Theorem C05_produced_hint_packs : forall v6key p h,
  SvcbParams.hint_handler v6key p = Some h -> SvcbParams.hint_packs h = true.
Proof. exact Proofs.SvcbParams.produced_hint_packs. Qed.
Print Assumptions C05_produced_hint_packs.

Theorem C05_hint_handler_accepts : forall v6key p,
  SvcbParams.hint_handler v6key p <> None <-> p = (if v6key then SvcbParams.PSix else SvcbParams.PFour).
Proof. exact Proofs.SvcbParams.hint_handler_accepts. Qed.
Print Assumptions C05_hint_handler_accepts.

Theorem C05_produced_port_in_range : forall n z,
  SvcbParams.port_handler n = Some z -> (0 <= z <= 65535)%Z.
Proof. exact Proofs.SvcbParams.produced_port_in_range. Qed.
Print Assumptions C05_produced_port_in_range.

(** A handler without the family test of its key produces a hint that cannot
    be packed (seeded change C05-Q; the ipv6hint handler of the tree before the
    repair). *)
Example C05_handler_without_family_test_refuted :
  exists p h, (match p with SvcbParams.PNone => None | _ => Some (SvcbParams.Hint4 p) end) = Some h /\
              SvcbParams.hint_packs h = false.
Proof. exact Proofs.SvcbParams.handler_without_family_test_refuted. Qed.
Print Assumptions C05_handler_without_family_test_refuted.

(** * Round 9b: the value of a TXT $dnsrewrite rule (txtStrings, /repo cda17d7)

    A TXT record carries character strings of at most 255 octets each; a value
    given as ONE longer string makes a record that cannot be packed, and the
    query gets no reply.  Model/TxtStrings.v mirrors the loop of txtStrings
    (fuel = the length of the value).  For EVERY value: *)
From AGH Require Model.TxtStrings Proofs.TxtStrings.

Theorem C05_txt_strings_fit : forall v,
  Forall (fun s => (length s <= 255)%nat) (TxtStrings.txt_strings v).
Proof. exact Proofs.TxtStrings.txt_strings_fit. Qed.
Print Assumptions C05_txt_strings_fit.

Theorem C05_txt_strings_concat : forall v, concat (TxtStrings.txt_strings v) = v.
Proof. exact Proofs.TxtStrings.txt_strings_concat. Qed.
Print Assumptions C05_txt_strings_concat.

Theorem C05_txt_strings_nonempty : forall v, TxtStrings.txt_strings v <> [].
Proof. exact Proofs.TxtStrings.txt_strings_nonempty. Qed.
Print Assumptions C05_txt_strings_nonempty.

(** the number of strings is ceil(n / 255), and 1 for the empty value *)
Theorem C05_txt_strings_count_ceil : forall v,
  length (TxtStrings.txt_strings v) =
  (if length v =? 0 then 1 else (length v + 254) / 255)%nat.
Proof. exact Proofs.TxtStrings.txt_strings_count_ceil. Qed.
Print Assumptions C05_txt_strings_count_ceil.

Theorem C05_txt_strings_count : forall v,
  let n := length v in let k := length (TxtStrings.txt_strings v) in
  (n = 0 -> k = 1)%nat /\ (0 < n -> 255 * (k - 1) < n /\ n <= 255 * k)%nat.
Proof. exact Proofs.TxtStrings.txt_strings_count. Qed.
Print Assumptions C05_txt_strings_count.

(** The value as one string (before cda17d7) does not fit from 256 octets on. *)
Theorem C05_txt_unsplit_refuted :
  exists v, TxtStrings.txt_fits (TxtStrings.txt_unsplit v) = false /\
            TxtStrings.txt_fits (TxtStrings.txt_strings v) = true.
Proof. exact Proofs.TxtStrings.txt_unsplit_refuted. Qed.
Print Assumptions C05_txt_unsplit_refuted.

Example C05_txt_strings_example :
  map (@length N) (TxtStrings.txt_strings (repeat 97%N 600)) = [255; 255; 90]%nat /\
  TxtStrings.txt_strings [] = [[]] /\
  map (@length N) (TxtStrings.txt_strings (repeat 97%N 255)) = [255]%nat /\
  map (@length N) (TxtStrings.txt_strings (repeat 97%N 256)) = [255; 1]%nat.
Proof. exact Proofs.TxtStrings.txt_strings_example. Qed.
Print Assumptions C05_txt_strings_example.

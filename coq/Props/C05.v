(** C05: reconfiguring the live server never races with or stalls DNS serving
    -- the part a proof can carry: the locking discipline.  Statements only;
    proofs in Proofs/Conc.v (generic, proved once), Proofs/LockTable.v
    (lifting) and Proofs/LockTableInst.v (the table regenerated from the
    current source, re-checked on every run). *)
From Coq Require Import List String Bool Arith.
From AGH Require Import Base.Conc Model.Guards Proofs.Conc Proofs.LockTable Gen.LockTable Proofs.LockTableInst.
Import ListNotations.
Local Open Scope string_scope.
Local Open Scope list_scope.

(** Generic, any number of threads, any event lists: if every access happens
    under the guard of its field (write mode for writes), no interleaving
    reaches a state with two threads about to perform conflicting accesses. *)
Theorem C05_well_locked_race_free : well_locked_race_free_statement.
Proof. exact well_locked_race_free. Qed.
Print Assumptions C05_well_locked_race_free.

(** The same with several guards per field (writes hold all, reads any). *)
Theorem C05_well_locked_m_race_free : well_locked_m_race_free_statement.
Proof. exact well_locked_m_race_free. Qed.
Print Assumptions C05_well_locked_m_race_free.

(** ... and with fields nobody writes, which may be read without a lock. *)
Theorem C05_well_locked_ro_race_free : well_locked_ro_race_free_statement.
Proof. exact well_locked_ro_race_free. Qed.
Print Assumptions C05_well_locked_ro_race_free.

(** Generic: nested acquisitions strictly increasing in rank (hence no read
    re-entrancy), releases matched, nothing held at the end => no reachable
    state has all unfinished threads blocked, writer preference included. *)
Theorem C05_ranked_no_deadlock : ranked_no_deadlock_statement.
Proof. exact ranked_no_deadlock. Qed.
Print Assumptions C05_ranked_no_deadlock.

(** The machine can race and can deadlock when the discipline is broken (the
    two definitions are not vacuous). *)
Theorem C05_race_possible :
  exists s, reachable (init [[Wr "f"]; [Rd "f"]]) s /\ race s.
Proof. exact race_possible. Qed.
Print Assumptions C05_race_possible.

Theorem C05_deadlock_possible :
  exists s,
    reachable (init [[Acq "a" W; Acq "b" W; Rel "b" W; Rel "a" W];
                     [Acq "b" W; Acq "a" W; Rel "a" W; Rel "b" W]]) s /\
    deadlocked s.
Proof. exact deadlock_possible. Qed.
Print Assumptions C05_deadlock_possible.

(** A read lock re-acquired by its holder deadlocks against a writer that
    arrives in between (the nested serverLock.RLock finding). *)
Theorem C05_reentrant_read_deadlock_possible :
  exists s,
    reachable (init [[Acq "l" R; Acq "l" R; Rel "l" R; Rel "l" R];
                     [Acq "l" W; Rel "l" W]]) s /\
    deadlocked s.
Proof. exact reentrant_read_deadlock_possible. Qed.
Print Assumptions C05_reentrant_read_deadlock_possible.

(** Instance, on the table extracted from the current source: every access
    site outside the known findings holds the guards of its field (or reads a
    field that has no write site at all); the
    acquired-while-held pairs outside the known findings admit a strictly
    increasing ranking; the translator resolved every lock receiver and
    function value it met. *)
Theorem C05_discipline_holds :
  forallb (access_ok_ro ro) checked_accesses = true /\
  forallb (order_ok (rank_of ranks)) checked_lock_order = true /\
  unresolved = [].
Proof. exact discipline_holds. Qed.
Print Assumptions C05_discipline_holds.

(** ... hence no race in any interleaving of any threads conforming to the
    extracted table ... *)
Theorem C05_no_race : forall progs,
  Forall (fun p => conforms checked_accesses [] p = true) progs ->
  forall s, reachable (init progs) s -> ~ race s.
Proof. exact no_race. Qed.
Print Assumptions C05_no_race.

(** ... and no deadlock in any interleaving of threads whose nested
    acquisitions are all in the extracted order table. *)
Theorem C05_no_deadlock : forall progs,
  Forall (fun p => conforms_order checked_lock_order [] p = true) progs ->
  forall s, reachable (init progs) s -> ~ deadlocked s.
Proof. exact no_deadlock. Qed.
Print Assumptions C05_no_deadlock.

Example C05_conforming_thread :
  conforms checked_accesses []
    [Acq "home.homeContext.controlLock" W; Acq "client.Storage.mu" W;
     Wr "client.index.nameToUID"; Rel "client.Storage.mu" W;
     Rel "home.homeContext.controlLock" W] = true.
Proof. exact conforming_thread. Qed.
Print Assumptions C05_conforming_thread.

Example C05_conforming_order_thread :
  conforms_order checked_lock_order []
    [Acq "home.homeContext.controlLock" W; Acq "client.Storage.mu" W;
     Rel "client.Storage.mu" W; Rel "home.homeContext.controlLock" W] = true.
Proof. exact conforming_order_thread. Qed.
Print Assumptions C05_conforming_order_thread.

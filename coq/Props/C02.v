(** C02: upstream answers revealing a blocked CNAME target, address or
    HTTPS address hint are not delivered.  Only statements here; proofs live
    in Proofs/Pipeline.v.  Round 2: the configuration includes the legacy
    rewrites, $dnsrewrite rules, the hosts file, safe search, DDR and DHCP;
    the theorems say when response filtering applies and that a rewritten
    question's answer is (as the property allows) not filtered. *)
From Coq Require Import List NArith Bool Permutation.
From AGH Require Import Base.Run Base.NetAddr Base.RuleEngine Model.Pipeline Proofs.Pipeline.
From AGH Require Model.Rewrites.
Import ListNotations.
Local Open Scope N_scope.

(** For every answer section [pre ++ rr :: post] (any lengths, any record
    types) whose first offending record is [rr] (its CNAME target / address /
    one of its hints gets a filtered verdict from the rule lists: a block
    rule wins, no allow-list rule matches and no $dnsrewrite rule applies to
    that same name or address): the client receives the blocking-mode answer
    for that rule with its own question, the original answer is kept for the
    log, the recorded reason is FilteredBlockList. *)
Theorem C02_offending_record_blocks :
  forall allow_eng block_eng sb par ss srt c up q r pre rr0 post res,
  response_filtering_applies allow_eng block_eng sb par ss srt c q ->
  up (q_name q) (q_qtype q) = Some r ->
  rs_answer r = pre ++ rr0 :: post ->
  Forall (clean allow_eng block_eng c (request_settings c q)) pre ->
  check_rr allow_eng block_eng (request_settings c q) (strip_rr c rr0) = Some res ->
  let o := process allow_eng block_eng sb par ss srt c up q in
  o_resp o = Some (synthetic c (q_name q) (q_qtype q) (ips_from_rules res)) /\
  o_result o = res /\ r_filtered res = true /\ r_reason res = FilteredBlockList /\
  o_orig_kept o = true /\ o_calls o = [the_call q] /\ o_qname o = q_name q.
Proof. exact offending_record_blocks. Qed.
Print Assumptions C02_offending_record_blocks.

(** What "offending" means for each record type, in terms of the rule check
    (matchHost on the lower-cased text with the record's type). *)
Theorem C02_offending_means :
  forall allow_eng block_eng (sb par : bytes -> bool) (ss : bytes -> N -> option ssverdict) st r res,
  check_rr allow_eng block_eng st r = Some res ->
  r_filtered res = true /\ r_reason res = FilteredBlockList.
Proof. exact check_rr_reason. Qed.
Print Assumptions C02_offending_means.

(** The interplay with $dnsrewrite, exactly as the code has it: a $dnsrewrite
    rule that applies to a name or address (and no allow-list rule matching)
    makes the rule check report "not filtered", whatever block rules name it;
    such a record in an answer is clean. *)
Theorem C02_dnsrewrite_shadows_block :
  forall allow_eng block_eng st host qt,
  snd (if st_protection st then allow_eng (rq_of st host qt) else (empty_result, false)) = false ->
  matched (dnsrewrite_result (fst (block_eng (rq_of st host qt))) host) = true ->
  r_filtered (match_host allow_eng block_eng st host qt) = false.
Proof. exact dnsrewrite_shadows_block. Qed.
Print Assumptions C02_dnsrewrite_shadows_block.

(** No offending record: the upstream answer is delivered as it came, except
    that IPv6 hints are removed from HTTPS records when AAAA is disabled. *)
Theorem C02_clean_answer_unchanged :
  forall allow_eng block_eng sb par ss srt c up q r,
  response_filtering_applies allow_eng block_eng sb par ss srt c q ->
  up (q_name q) (q_qtype q) = Some r ->
  Forall (clean allow_eng block_eng c (request_settings c q)) (rs_answer r) ->
  let o := process allow_eng block_eng sb par ss srt c up q in
  o_resp o = Some (with_answer r (map (strip_rr c) (rs_answer r))) /\
  o_orig_kept o = false /\ r_filtered (o_result o) = false /\ o_qname o = resp_qname r (q_name q).
Proof. exact clean_answer_unchanged. Qed.
Print Assumptions C02_clean_answer_unchanged.

Theorem C02_no_stripping_when_aaaa_enabled :
  forall c l, c_aaaa_disabled c = false -> map (strip_rr c) l = l.
Proof. exact map_strip_id. Qed.
Print Assumptions C02_no_stripping_when_aaaa_enabled.

(** Response filtering not applicable (name allow-listed, protection off,
    filtering off for the client): the answer is delivered untouched whatever
    it contains. *)
Theorem C02_gate_closed_unchanged :
  forall allow_eng block_eng sb par ss srt c up q res r,
  passes_request_stage allow_eng block_eng sb par ss srt c q res ->
  up (q_name q) (q_qtype q) = Some r ->
  (r_reason res = NotFilteredAllowList \/
   protection_on c = false \/ st_filtering (request_settings c q) = false) ->
  o_resp (process allow_eng block_eng sb par ss srt c up q) = Some r /\
  o_orig_kept (process allow_eng block_eng sb par ss srt c up q) = false.
Proof. exact gate_closed_unchanged. Qed.
Print Assumptions C02_gate_closed_unchanged.

(** A rewritten question (legacy rewrite to a CNAME without addresses,
    $dnsrewrite CNAME, safe-search CNAME): the target is resolved instead of
    the client's name, the client's question is put back and the CNAME record
    is put in front of whatever the upstream answered; those records are NOT
    examined by response filtering ("neither allow-listed nor rewritten" in
    the property's premise). *)
Theorem C02_rewritten_answer_not_filtered :
  forall allow_eng block_eng sb par ss srt c up q res r,
  prefilter c q = PContinue false ->
  verdict allow_eng block_eng sb par ss srt c q = Some res -> is_rewritten_cname res = true ->
  up (fqdn (r_canon res)) (q_qtype q) = Some r ->
  let o := process allow_eng block_eng sb par ss srt c up q in
  o_resp o = Some (with_answer r (rec_cname c (q_name q) (r_canon res) :: rs_answer r)) /\
  o_calls o = [(fqdn (r_canon res), q_qtype q)] /\ o_result o = res /\
  o_orig_kept o = false /\ o_qname o = q_name q.
Proof. exact rewritten_cname_outcome. Qed.
Print Assumptions C02_rewritten_answer_not_filtered.

(** The verdict does not depend on where the offending record sits. *)
Theorem C02_position_independent :
  forall allow_eng block_eng c st ans ans',
  Permutation ans ans' ->
  answer_blocked allow_eng block_eng c st ans = answer_blocked allow_eng block_eng c st ans'.
Proof. exact position_independent. Qed.
Print Assumptions C02_position_independent.

Theorem C02_blocked_iff_some_record_offends :
  forall allow_eng block_eng c st ans,
  answer_blocked allow_eng block_eng c st ans = true <-> Exists (offending allow_eng block_eng c st) ans.
Proof. exact answer_blocked_iff. Qed.
Print Assumptions C02_blocked_iff_some_record_offends.

(** Non-vacuity: "TXT, CNAME b.a.test., A" for x.test with "||a.test^" on
    the block list, nxdomain mode. *)
Example C02_premises_satisfiable :
  let a := match_request [] in let b := match_request ex_block_rules in
  let c := ex_cfg MNXDomain in let st := request_settings c ex_query_other in
  response_filtering_applies a b (fun _ => false) (fun _ => false) no_ss Rewrites.isort c ex_query_other /\
  Forall (clean a b c st) [mkRR [120;46;116;101;115;116;46] 300 (DOther 16 7)] /\
  (exists res, check_rr a b st (strip_rr c (mkRR [120;46;116;101;115;116;46] 300 (DCNAME [98;46;97;46;116;101;115;116;46]))) = Some res) /\
  Forall (clean a b c st) [mkRR [98;46;97;46;116;101;115;116;46] 300
                  (DA (mkTA (mkAddr V4 1572395042 []) [57;51;46;49;56;52;46;50;49;54;46;51;52]))].
Proof. exact ex_response_premises. Qed.

(** Non-vacuity of the rewritten case: the rewrite "x.test -> b.a.test"
    with "||a.test^" on the block list; the answer for the target is
    delivered behind the CNAME. *)
Example C02_rewritten_premises_satisfiable :
  let c := ex_cfg_with MDefault None [ex_rw_to_blocked] BHEmpty in
  prefilter c ex_query_other = PContinue false /\
  exists res, verdict (match_request []) (match_request ex_block_rules) (fun _ => false) (fun _ => false) no_ss
                Rewrites.isort c ex_query_other = Some res /\ is_rewritten_cname res = true.
Proof. cbv zeta. split; [vm_compute; reflexivity|]. eexists. split; vm_compute; reflexivity. Qed.

(** * Rule lists switched on and off while the server runs (round 3)

    The property quantifies over all rule sets; a running server goes through
    several (POST /control/filtering/set_url enables and disables block and
    allow lists, the engines are rebuilt).  Model/PipelineLists.v: the engines
    in force are built from the user rules and the lists enabled NOW. *)
From AGH Require Import Model.PipelineLists Proofs.PipelineLists.

(** After set_url enabled:false for every allow list (any state before,
    any order, any rules matched before): the allow engine matches nothing
    and the block side is unchanged. *)
Theorem C02_all_allow_lists_disabled_exempt_nothing :
  forall st urls,
  incl (map fl_url (ls_allow st)) urls ->
  (forall rq, match_request (allow_rules (apply_changes st (disable_allow urls))) rq = (empty_result, false)) /\
  block_rules (apply_changes st (disable_allow urls)) = block_rules st.
Proof. exact all_allow_lists_disabled. Qed.
Print Assumptions C02_all_allow_lists_disabled_exempt_nothing.

(** No allow list enabled: the rule check applied to the question's name and
    to every record of an answer is that of a server without allow lists. *)
Theorem C02_no_allow_list_enabled_record_check :
  forall st block_eng s host qt,
  all_off (ls_allow st) ->
  match_host (match_request (allow_rules st)) block_eng s host qt =
  match_host (fun _ => (empty_result, false)) block_eng s host qt.
Proof. exact no_allow_list_enabled_match_host. Qed.
Print Assumptions C02_no_allow_list_enabled_record_check.

(** The outcome of a query after two histories of changes is the same
    whenever the same rules are in force at the end. *)
Theorem C02_outcome_depends_on_rules_in_force :
  forall sb par ss srt st chs chs' c up q,
  allow_rules (apply_changes st chs) = allow_rules (apply_changes st chs') ->
  block_rules (apply_changes st chs) = block_rules (apply_changes st chs') ->
  ask_after sb par ss srt st chs c up q = ask_after sb par ss srt st chs' c up q.
Proof. exact history_independent. Qed.
Print Assumptions C02_outcome_depends_on_rules_in_force.

(** Only rules of enabled lists are in force. *)
Theorem C02_rules_in_force_come_from_enabled_lists :
  forall ls r, In r (active ls) -> exists f, In f ls /\ fl_on f = true /\ In r (fl_rules f).
Proof. exact active_only_enabled. Qed.
Print Assumptions C02_rules_in_force_come_from_enabled_lists.

(** Non-vacuity (the seeded scenario): user rule ||b.a.test^, one enabled
    allow list with a rule for the same name: exempted before, not after. *)
Example C02_allow_list_disabled_scenario :
  snd (match_request (allow_rules exl_state) exl_rq) = true /\
  snd (match_request (allow_rules (apply_changes exl_state (disable_allow [7]))) exl_rq) = false /\
  snd (match_request (block_rules (apply_changes exl_state (disable_allow [7]))) exl_rq) = true.
Proof. split; [exact exl_before | exact exl_after]. Qed.

(** * Whose settings, whose tags (round 4)

    The property quantifies over "filtering off for the client" and over all
    rule sets; which client a request belongs to, and which client tags reach
    the rule engine, is decided by the registry of persistent clients
    (client.Storage, the model of C04, Model/ClientIndex.v) from the request's
    ClientID and address.  Model/PipelineClients.v computes the request's
    client from (registry, leases, ClientID, address) instead of taking it as
    an input. *)
From AGH Require Import Model.PipelineClients Proofs.PipelineClients.
From AGH Require Model.ClientIndex Proofs.ClientIndex.

(** Response filtering applies to a request iff the request stage let it
    through, protection is on and the filtering flag of the client that OWNS
    the request is on, the owner being the one the precedence specification of
    C04 names: the client that registered the ClientID; else the client
    listing the address; else the client with the longest subnet containing
    it; else the client with the MAC of the address' lease; else nobody (the
    global flag).  For every registry satisfying the invariant (every history
    of Add / Update / RemoveByName reaches only such, [C04_index_consistent]),
    every lease table, every ClientID (registered, unregistered, absent). *)
Theorem C02_response_filtering_uses_owner_settings :
  forall allow_eng block_eng sb par ss srt paused c ix dhcp cid q r,
  Proofs.ClientIndex.Inv ix ->
  Proofs.ClientIndex.resolves ix dhcp cid (ci_addr (q_addr q)) r ->
  let q' := attach paused ix dhcp cid q in
  let o := match r with Some u => ClientIndex.deref ix u | None => None end in
  (response_filtering_applies allow_eng block_eng sb par ss srt c q' <->
   passes_request_stage allow_eng block_eng sb par ss srt c q' no_result /\
   protection_on c = true /\ effective_filtering c o = true).
Proof. exact response_filtering_uses_owner_settings. Qed.
Print Assumptions C02_response_filtering_uses_owner_settings.

(** The owner's filtering is off: the answer is delivered as it came. *)
Theorem C02_owner_filtering_off_answer_unchanged :
  forall allow_eng block_eng sb par ss srt paused c ix dhcp cid q r up res ans,
  Proofs.ClientIndex.Inv ix ->
  Proofs.ClientIndex.resolves ix dhcp cid (ci_addr (q_addr q)) r ->
  let q' := attach paused ix dhcp cid q in
  effective_filtering c (match r with Some u => ClientIndex.deref ix u | None => None end) = false ->
  passes_request_stage allow_eng block_eng sb par ss srt c q' res ->
  up (q_name q) (q_qtype q) = Some ans ->
  o_resp (process allow_eng block_eng sb par ss srt c up q') = Some ans /\
  o_orig_kept (process allow_eng block_eng sb par ss srt c up q') = false.
Proof. exact owner_filtering_off_answer_unchanged. Qed.
Print Assumptions C02_owner_filtering_off_answer_unchanged.

(** The owner's filtering is on: the first offending record replaces the answer. *)
Theorem C02_owner_filtering_on_offending_record_blocks :
  forall allow_eng block_eng sb par ss srt paused c ix dhcp cid q r up ans pre rr0 post res,
  Proofs.ClientIndex.Inv ix ->
  Proofs.ClientIndex.resolves ix dhcp cid (ci_addr (q_addr q)) r ->
  let q' := attach paused ix dhcp cid q in
  effective_filtering c (match r with Some u => ClientIndex.deref ix u | None => None end) = true ->
  protection_on c = true ->
  passes_request_stage allow_eng block_eng sb par ss srt c q' no_result ->
  up (q_name q) (q_qtype q) = Some ans ->
  rs_answer ans = pre ++ rr0 :: post ->
  Forall (clean allow_eng block_eng c (request_settings c q')) pre ->
  check_rr allow_eng block_eng (request_settings c q') (strip_rr c rr0) = Some res ->
  o_resp (process allow_eng block_eng sb par ss srt c up q') = Some (synthetic c (q_name q) (q_qtype q) (ips_from_rules res)) /\
  o_result (process allow_eng block_eng sb par ss srt c up q') = res /\ r_filtered res = true /\
  o_orig_kept (process allow_eng block_eng sb par ss srt c up q') = true.
Proof. exact owner_filtering_on_offending_record_blocks. Qed.
Print Assumptions C02_owner_filtering_on_offending_record_blocks.

(** A ClientID nobody registered does not make the request anonymous: it
    belongs to the client listing its address ... *)
Theorem C02_unregistered_clientid_falls_back_to_address :
  forall ix dhcp cid a u,
  Proofs.ClientIndex.Inv ix ->
  (forall u', ~ Proofs.ClientIndex.owner_of ix ClientIndex.c_cids cid u') ->
  Proofs.ClientIndex.owner_of ix ClientIndex.c_ips (ci_addr a) u ->
  exists cl, owner ix dhcp cid a = Some cl /\ ClientIndex.c_uid cl = u.
Proof. exact unregistered_clientid_falls_back_to_address. Qed.
Print Assumptions C02_unregistered_clientid_falls_back_to_address.

(** ... or, when no client lists the address, to the client with the most
    specific subnet containing it. *)
Theorem C02_unregistered_clientid_falls_back_to_subnet :
  forall ix dhcp cid a u p,
  Proofs.ClientIndex.Inv ix ->
  (forall u', ~ Proofs.ClientIndex.owner_of ix ClientIndex.c_cids cid u') ->
  (forall u', ~ Proofs.ClientIndex.owner_of ix ClientIndex.c_ips (ci_addr a) u') ->
  Proofs.ClientIndex.owner_of ix ClientIndex.c_subnets p u -> ClientIndex.contains p (fst (ci_addr a)) = true ->
  (forall p' u', Proofs.ClientIndex.owner_of ix ClientIndex.c_subnets p' u' -> ClientIndex.contains p' (fst (ci_addr a)) = true ->
     snd p' <= snd p /\ (p' = p \/ ClientIndex.subnet_compare p p' = Lt)) ->
  exists cl, owner ix dhcp cid a = Some cl /\ ClientIndex.c_uid cl = u.
Proof. exact unregistered_clientid_falls_back_to_subnet. Qed.
Print Assumptions C02_unregistered_clientid_falls_back_to_subnet.

(** The lookup without the fall-back ("ClientID present: by ClientID only")
    is NOT the specified one: the registry with one client listing 192.0.2.20
    and the unregistered ClientID "guest". *)
Theorem C02_lookup_without_fallback_refuted :
  exists ix dhcp cid a u,
    Proofs.ClientIndex.Inv ix /\ Proofs.ClientIndex.resolves ix dhcp cid (ci_addr a) (Some u) /\
    acf_find_no_fallback ix dhcp cid (ci_addr a) <> Some u.
Proof. exact no_fallback_lookup_refuted. Qed.
Print Assumptions C02_lookup_without_fallback_refuted.

(** Every client of every registry reached by a history of Add / Update /
    RemoveByName has its tags sorted (Persistent.validate sorts them on the
    way in, whatever order the HTTP API or the configuration file gave). *)
Theorem C02_registry_tags_sorted :
  forall rc ops u cl,
  ClientIndex.deref (ClientIndex.run rc ops ClientIndex.empty_index) u = Some cl ->
  tags_sorted (ClientIndex.c_tags cl).
Proof. exact registry_tags_sorted. Qed.
Print Assumptions C02_registry_tags_sorted.

(** ... so the tags the rule engine is asked with are sorted, for every
    history, lease table, ClientID and request. *)
Theorem C02_engine_tags_sorted :
  forall paused c rc ops dhcp cid q,
  tags_sorted (engine_tags paused c (ClientIndex.run rc ops ClientIndex.empty_index) dhcp cid q).
Proof. exact engine_tags_sorted. Qed.
Print Assumptions C02_engine_tags_sorted.

(** urlfilter's $ctag test (matchClientTagsSpecific, a merge walk over the
    rule's and the client's tag lists) on sorted lists is set membership ... *)
Theorem C02_ctag_walk_sorted_is_membership :
  forall rs cs, tags_sorted rs -> tags_sorted cs -> tags_walk rs cs = tags_meet rs cs.
Proof. exact tags_walk_sorted_is_membership. Qed.
Print Assumptions C02_ctag_walk_sorted_is_membership.

(** ... hence a $ctag rule (its lists sorted by urlfilter's loadCTags)
    matches a request exactly when [RuleEngine.match_ctags], the reading the
    engine model uses, says so. *)
Theorem C02_ctag_rule_matches_by_membership :
  forall paused c rc ops dhcp cid q r,
  tags_sorted (nr_ctag_perm r) -> tags_sorted (nr_ctag_restr r) ->
  let tags := engine_tags paused c (ClientIndex.run rc ops ClientIndex.empty_index) dhcp cid q in
  match_ctags_walk r tags = match_ctags r tags.
Proof. exact ctag_rule_matches_by_membership. Qed.
Print Assumptions C02_ctag_rule_matches_by_membership.

(** On an UNSORTED client list the walk misses a tag the client has: rule
    "$ctag=device_phone", client tags "user_child", "device_phone". *)
Theorem C02_ctag_walk_unsorted_refuted :
  exists rs cs, tags_sorted rs /\ tags_meet rs cs = true /\ tags_walk rs cs = false.
Proof. exact tags_walk_unsorted_refuted. Qed.
Print Assumptions C02_ctag_walk_unsorted_refuted.

(** Non-vacuity: the example registry (one client listing 192.0.2.20 with the
    ClientID "known", tags given as "user_child", "device_phone") satisfies the
    invariant, resolves the request with the unregistered ClientID "guest" to
    that client, whose stored tags are sorted. *)
Example C02_registry_premises_satisfiable :
  Proofs.ClientIndex.Inv ex_ix /\
  Proofs.ClientIndex.resolves ex_ix (fun _ => None) guest (ci_addr ex_addr) (Some 1) /\
  ClientIndex.deref ex_ix 1 = Some (ClientIndex.normalize ex_on).
Proof. exact ex_premises. Qed.

(** * Round 5: "protection on / off" as a history (Model/Protection.v, shared
    with C01: the switch operated through POST /control/protection with and
    without a duration and through dns_config, the clock an input, the lazy
    re-enable; every interleaving).  C01_protection_follows_last_switch states when protection is
    in force; here: what that means for response filtering. *)
From AGH Require Import Model.Protection Proofs.Protection.
Local Open Scope Z_scope.

(** The gate of response filtering over the history: it applies iff the
    request stage passed, the LAST accepted switch says "in force" at the
    instant of the request (switched on, whatever pause preceded; or a pause
    whose deadline has been reached) and the client's filtering is on. *)
Theorem C02_response_filtering_follows_last_switch :
  forall allow_eng block_eng sb par ss srt c sw0 T0 s0 h t q,
  agrees sw0 T0 s0 -> ordered T0 h -> last_instant T0 h <= t ->
  let c' := cfg_after c s0 h t in
  response_filtering_applies allow_eng block_eng sb par ss srt c' q <->
  (passes_request_stage allow_eng block_eng sb par ss srt c' q no_result /\
   expected (last_switch sw0 h) t = true /\ st_filtering (request_settings c' q) = true).
Proof. exact response_filtering_after_history. Qed.
Print Assumptions C02_response_filtering_follows_last_switch.

(** After an accepted re-enable (or a pause that has run out) the first
    offending record replaces the answer, whatever pause preceded it. *)
Theorem C02_offending_record_blocks_after_history :
  forall allow_eng block_eng sb par ss srt c sw0 T0 s0 h t up q r pre rr0 post res,
  agrees sw0 T0 s0 -> ordered T0 h -> last_instant T0 h <= t ->
  expected (last_switch sw0 h) t = true ->
  let c' := cfg_after c s0 h t in
  passes_request_stage allow_eng block_eng sb par ss srt c' q no_result ->
  st_filtering (request_settings c' q) = true ->
  up (q_name q) (q_qtype q) = Some r ->
  rs_answer r = pre ++ rr0 :: post ->
  Forall (clean allow_eng block_eng c' (request_settings c' q)) pre ->
  check_rr allow_eng block_eng (request_settings c' q) (strip_rr c' rr0) = Some res ->
  let o := process allow_eng block_eng sb par ss srt c' up q in
  o_resp o = Some (synthetic c' (q_name q) (q_qtype q) (ips_from_rules res)) /\
  o_result o = res /\ r_filtered res = true /\ r_reason res = FilteredBlockList /\
  o_orig_kept o = true /\ o_calls o = [the_call q] /\ o_qname o = q_name q.
Proof. exact offending_record_blocks_after_history. Qed.
Print Assumptions C02_offending_record_blocks_after_history.

(** What the request reads is the state machine's verdict; it is decided by
    the last switch. *)
Theorem C02_protection_after_history :
  forall c sw0 T0 s0 h t,
  agrees sw0 T0 s0 -> ordered T0 h -> last_instant T0 h <= t ->
  protection_on (cfg_after c s0 h t) = expected (last_switch sw0 h) t.
Proof. exact protection_after_history. Qed.
Print Assumptions C02_protection_after_history.

(** The seeded handler (C02-J: a request without a duration only stores the
    flag): on, paused for an hour, switched on again: not in force until the
    old deadline, so answers revealing blocked records are delivered. *)
Theorem C02_reenable_keeps_deadline_refuted :
  exists h t, ordered 0 h /\ last_instant 0 h <= t /\ last_switch SwOn h = SwOn /\
    in_force t (prot_run set_keeps_deadline conf_as_written wake_as_written (prot_init true None) h) = false /\
    in_force t (run_now (prot_init true None) h) = true.
Proof. exact reenable_keeps_deadline_refuted. Qed.
Print Assumptions C02_reenable_keeps_deadline_refuted.

From AGH Require Import Model.PipelineAnswer Proofs.PipelineAnswer.

(** * Round 6: the whole upstream message (code, sections, flag, question)

    [filter_response] (Model/PipelineAnswer.v) is filterDNSResponse as a
    function of the whole message; the early return is a policy parameter
    ([guard_as_written] = the code, [guard_noerror_only] = the seeded
    variant).  The property speaks of the ANSWER section; the code reads the
    answer section and nothing else of the message: records in the authority
    or additional section are not examined (mirrored, not judged). *)

(** For every two upstream answers that differ only in the response code
    (NOERROR, NXDOMAIN, SERVFAIL, REFUSED, NOTIMP, any number) to a request
    that reaches the upstream with its own question: delivered or replaced
    alike, with the same result, the same upstream calls, the same question;
    a replaced answer is replaced by the same blocking-mode answer; a
    delivered one differs in the code only. *)
Theorem C02_response_filtering_ignores_rcode :
  forall allow_eng block_eng sb par ss srt c up up' q res r rc,
  passes_request_stage allow_eng block_eng sb par ss srt c q res ->
  up (q_name q) (q_qtype q) = Some r ->
  up' (q_name q) (q_qtype q) = Some (set_rcode rc r) ->
  let o := process allow_eng block_eng sb par ss srt c up q in
  let o' := process allow_eng block_eng sb par ss srt c up' q in
  o_orig_kept o' = o_orig_kept o /\ o_result o' = o_result o /\ o_calls o' = o_calls o /\
  o_qname o' = o_qname o /\ o_logged o' = o_logged o /\
  o_resp o' = if o_orig_kept o then o_resp o else option_map (set_rcode rc) (o_resp o).
Proof. exact response_filtering_ignores_rcode. Qed.
Print Assumptions C02_response_filtering_ignores_rcode.

(** The same for any change outside the answer section that leaves the
    question alone: the authority section, the additional section, the TC
    flag, and any combination with the code ([outside_answer] is closed under
    composition). *)
Theorem C02_response_filtering_ignores_other_sections :
  forall allow_eng block_eng sb par ss srt f c up up' q res r,
  outside_answer f -> (forall r0 n, resp_qname (f r0) n = resp_qname r0 n) ->
  passes_request_stage allow_eng block_eng sb par ss srt c q res ->
  up (q_name q) (q_qtype q) = Some r ->
  up' (q_name q) (q_qtype q) = Some (f r) ->
  let o := process allow_eng block_eng sb par ss srt c up q in
  let o' := process allow_eng block_eng sb par ss srt c up' q in
  o_orig_kept o' = o_orig_kept o /\ o_result o' = o_result o /\ o_calls o' = o_calls o /\
  o_qname o' = o_qname o /\ o_logged o' = o_logged o /\
  o_resp o' = if o_orig_kept o then o_resp o else option_map f (o_resp o).
Proof. exact response_filtering_ignores_outside_answer. Qed.
Print Assumptions C02_response_filtering_ignores_other_sections.

Theorem C02_sections_are_outside_the_answer :
  (forall rc, outside_answer (set_rcode rc)) /\
  (forall soa ns, outside_answer (set_authority soa ns)) /\
  (forall ex, outside_answer (set_additional ex)) /\
  (forall tc, outside_answer (set_tc tc)) /\
  (forall k, outside_answer (set_qcase k)) /\
  (forall f g, outside_answer f -> outside_answer g -> outside_answer (fun r => f (g r))).
Proof.
  exact (conj set_rcode_outside (conj set_authority_outside (conj set_additional_outside
        (conj set_tc_outside (conj set_qcase_outside outside_compose))))).
Qed.
Print Assumptions C02_sections_are_outside_the_answer.

(** The question inside the upstream answer written in another case: the
    same verdict; a delivered message carries the upstream's question (the
    client's up to ASCII case), the blocking-mode answer the client's own. *)
Theorem C02_response_filtering_ignores_question_case :
  forall allow_eng block_eng sb par ss srt c up up' q res r k,
  passes_request_stage allow_eng block_eng sb par ss srt c q res ->
  up (q_name q) (q_qtype q) = Some r ->
  up' (q_name q) (q_qtype q) = Some (set_qcase k r) ->
  let o := process allow_eng block_eng sb par ss srt c up q in
  let o' := process allow_eng block_eng sb par ss srt c up' q in
  o_orig_kept o' = o_orig_kept o /\ o_result o' = o_result o /\ o_calls o' = o_calls o /\
  o_qname o' = (if o_orig_kept o then q_name q else resp_qname (set_qcase k r) (q_name q)) /\
  o_resp o' = if o_orig_kept o then o_resp o else option_map (set_qcase k) (o_resp o).
Proof. exact response_filtering_ignores_question_case. Qed.
Print Assumptions C02_response_filtering_ignores_question_case.

(** The function itself: whatever is changed outside the answer section,
    the verdict and the result are the same and the message left behind
    differs by exactly that change. *)
Theorem C02_filter_response_reads_answer_section_only :
  forall allow_eng block_eng c st r r',
  rs_answer r = rs_answer r' ->
  result_of (filter_response allow_eng block_eng c st r) = result_of (filter_response allow_eng block_eng c st r').
Proof. exact filter_response_reads_answer_section_only. Qed.
Print Assumptions C02_filter_response_reads_answer_section_only.

Theorem C02_filter_response_outside_answer :
  forall allow_eng block_eng f c st r,
  outside_answer f ->
  filter_response allow_eng block_eng c st (f r) = map_message f (filter_response allow_eng block_eng c st r).
Proof. exact filter_response_outside_answer. Qed.
Print Assumptions C02_filter_response_outside_answer.

(** The pipeline's outcome for a forwarded question whose name nothing
    matched is this function's verdict (protection on). *)
Theorem C02_pipeline_outcome_is_filter_response :
  forall allow_eng block_eng c up q res r,
  r_reason res = NotFilteredNotFound -> protection_on c = true ->
  after_upstream allow_eng block_eng c up q res r =
  match filter_response allow_eng block_eng c (request_settings c q) r with
  | Replaced fr _ =>
      mkOutcome (Some (fst (filter_message c up (q_name q) (q_qtype q) fr))) [the_call q] fr true true (q_name q)
  | Delivered r' => mkOutcome (Some r') [the_call q] res false true (resp_qname r (q_name q))
  end.
Proof. exact after_upstream_is_filter_response. Qed.
Print Assumptions C02_pipeline_outcome_is_filter_response.

(** A delivered message reaches the client with its code, authority and
    additional sections, TC flag and question as the upstream sent them; the
    answer section as it came or, when it was examined, without the IPv6
    hints of its HTTPS records if AAAA is disabled. *)
Theorem C02_delivered_message_unchanged :
  forall allow_eng block_eng c st r r',
  filter_response allow_eng block_eng c st r = Delivered r' ->
  rs_rcode r' = rs_rcode r /\ rs_soa r' = rs_soa r /\ rs_ns r' = rs_ns r /\ rs_extra r' = rs_extra r /\
  rs_tc r' = rs_tc r /\ rs_qcase r' = rs_qcase r /\
  (rs_answer r' = rs_answer r \/
   st_filtering st = true /\ rs_answer r' = map (strip_rr c) (rs_answer r) /\
   Forall (clean allow_eng block_eng c st) (rs_answer r)).
Proof. exact delivered_message_unchanged. Qed.
Print Assumptions C02_delivered_message_unchanged.

Theorem C02_delivered_message_identical_when_aaaa_enabled :
  forall allow_eng block_eng c st r r',
  c_aaaa_disabled c = false -> filter_response allow_eng block_eng c st r = Delivered r' -> r' = r.
Proof. exact delivered_message_identical_when_aaaa_enabled. Qed.
Print Assumptions C02_delivered_message_identical_when_aaaa_enabled.

(** An offending record anywhere in the answer section replaces the answer
    whatever the code, the other sections, the flag, the question's case. *)
Theorem C02_offending_record_replaces_whatever_else :
  forall allow_eng block_eng c st r pre rr0 post res,
  st_filtering st = true ->
  rs_answer r = pre ++ rr0 :: post ->
  Forall (clean allow_eng block_eng c st) pre ->
  check_rr allow_eng block_eng st (strip_rr c rr0) = Some res ->
  forall f, outside_answer f ->
  filter_response allow_eng block_eng c st (f r) =
    Replaced res (f (with_answer r (map (strip_rr c) pre ++ strip_rr c rr0 :: post))).
Proof. exact offending_record_replaces. Qed.
Print Assumptions C02_offending_record_replaces_whatever_else.

Theorem C02_replaced_iff_some_answer_record_offends :
  forall allow_eng block_eng c st r,
  is_replaced (filter_response allow_eng block_eng c st r) = true <->
  st_filtering st = true /\ Exists (offending allow_eng block_eng c st) (rs_answer r).
Proof. exact replaced_iff_some_record_offends. Qed.
Print Assumptions C02_replaced_iff_some_answer_record_offends.

(** The seeded early return (C02-L: nothing is examined unless the code is
    NOERROR): it agrees with the code on every NOERROR answer, delivers every
    other answer as it is, and the witness is NXDOMAIN with the CNAME chain to
    a blocked name in the answer section. *)
Theorem C02_noerror_only_guard_agrees_on_noerror :
  forall allow_eng block_eng c st r,
  rs_rcode r = rcSuccess ->
  filter_response_with allow_eng block_eng guard_noerror_only c st r = filter_response allow_eng block_eng c st r.
Proof. exact noerror_only_guard_agrees_on_noerror. Qed.
Print Assumptions C02_noerror_only_guard_agrees_on_noerror.

Theorem C02_noerror_only_guard_delivers_every_failed_answer :
  forall allow_eng block_eng c st r,
  rs_rcode r <> rcSuccess -> filter_response_with allow_eng block_eng guard_noerror_only c st r = Delivered r.
Proof. exact noerror_only_guard_delivers_every_failed_answer. Qed.
Print Assumptions C02_noerror_only_guard_delivers_every_failed_answer.

Theorem C02_noerror_only_guard_refuted :
  let a := match_request [] in
  let b := match_request ex_block_rules in
  let c := ex_cfg MDefault in
  let st := request_settings c ex_query_other in
  rs_rcode ex_nx_answer = rcNXDomain /\
  st_filtering st = true /\ st_protection st = true /\
  is_replaced (filter_response a b c st ex_nx_answer) = true /\
  filter_response_with a b guard_noerror_only c st ex_nx_answer = Delivered ex_nx_answer.
Proof. exact noerror_only_guard_refuted. Qed.
Print Assumptions C02_noerror_only_guard_refuted.

(** * Round 8: "filtering off" is what the requests read.  The global
    filtering flag is published to the requests by enableFiltersLocked alone
    (Model/FilterSwitch.v, shared with C01): once POST /control/filtering/config
    has returned, the flag the requests read is the one it set. *)
From AGH Require Import Model.PipelineLists Model.FilterQueue Model.FilterSwitch Proofs.FilterSwitch.

Theorem C02_switch_in_force_after_config :
  forall g en rest,
  Forall (fun o => match o with GConfig _ => False | GOp _ => True end) rest ->
  g_on (grun gate_as_written config_always g (GConfig en :: rest)) = en.
Proof. exact switch_in_force_after_config. Qed.
Print Assumptions C02_switch_in_force_after_config.

(** The seeded handler (C02-P: the rebuild, and with it the publication, only
    when enabling): switched off, the requests still read on, so answers keep
    being response-filtered. *)
Theorem C02_publish_only_when_enabling_refuted :
  exists g, g_on g = g_conf g /\
    g_on (grun gate_as_written config_only_when_enabling g [GConfig false]) = true /\
    g_conf (grun gate_as_written config_only_when_enabling g [GConfig false]) = false /\
    g_on (grun gate_as_written config_always g [GConfig false]) = false.
Proof. exact publish_only_when_enabling_refuted. Qed.
Print Assumptions C02_publish_only_when_enabling_refuted.

(** * Rule changes queued while an engine rebuild is pending (round 9)

    "For all rule sets": the rule set in force is the one of the last
    accepted change (set_rules, set_url, add_url, remove_url), which reaches
    the running engines through the one-slot channel between the web handlers
    and the updates loop (Model/FilterQueue.v, the model of C01, reused).
    Whatever was pending or being installed when the last change arrived,
    once the loop has served the queue the records of an upstream answer are
    checked against the rules of that last change. *)
From AGH Require Import Model.FilterQueue Proofs.FilterQueue Proofs.PipelineQueueResp.

Theorem C02_queue_offending_record_blocks :
  forall sb par ss srt st hs c up q r pre rr0 post res,
  let s := hrun (pinit st) hs in
  let a := match_request (allow_rules (q_conf s)) in
  let b := match_request (block_rules (q_conf s)) in
  response_filtering_applies a b sb par ss srt c q ->
  up (q_name q) (q_qtype q) = Some r ->
  rs_answer r = pre ++ rr0 :: post ->
  Forall (clean a b c (request_settings c q)) pre ->
  check_rr a b (request_settings c q) (strip_rr c rr0) = Some res ->
  let o := ask_q sb par ss srt (pquiesce s) c up q in
  o_resp o = Some (synthetic c (q_name q) (q_qtype q) (ips_from_rules res)) /\
  o_result o = res /\ r_filtered res = true /\ r_reason res = FilteredBlockList /\
  o_orig_kept o = true /\ o_calls o = [the_call q] /\ o_qname o = q_name q.
Proof. exact queue_offending_record_blocks. Qed.
Print Assumptions C02_queue_offending_record_blocks.

Theorem C02_queue_clean_answer_unchanged :
  forall sb par ss srt st hs c up q r,
  let s := hrun (pinit st) hs in
  let a := match_request (allow_rules (q_conf s)) in
  let b := match_request (block_rules (q_conf s)) in
  response_filtering_applies a b sb par ss srt c q ->
  up (q_name q) (q_qtype q) = Some r ->
  Forall (clean a b c (request_settings c q)) (rs_answer r) ->
  let o := ask_q sb par ss srt (pquiesce s) c up q in
  o_resp o = Some (with_answer r (map (strip_rr c) (rs_answer r))) /\
  o_orig_kept o = false /\ r_filtered (o_result o) = false /\ o_qname o = resp_qname r (q_name q).
Proof. exact queue_clean_answer_unchanged. Qed.
Print Assumptions C02_queue_clean_answer_unchanged.

(** The rules of the last set_rules call head the block engine the records
    are checked with, whatever was queued or being installed when it came. *)
Theorem C02_queue_last_set_rules_decide :
  forall sb par ss srt st hs rs c up q,
  let s := handle (hrun (pinit st) hs) (QRules rs) in
  ask_q sb par ss srt (pquiesce s) c up q =
  process (match_request (allow_rules (q_conf s))) (match_request (rs ++ active (ls_block (q_conf s))))
          sb par ss srt c up q.
Proof. exact queue_last_set_rules_decide. Qed.
Print Assumptions C02_queue_last_set_rules_decide.

(** With a non-blocking send in place of drain-then-send: two set_rules
    calls while the loop is away, the second blocks b.a.test; the answer
    "x.test CNAME b.a.test" is delivered although the configuration in force
    blocks the target (the model with the code's policy blocks it). *)
Theorem C02_nonblocking_send_delivers_blocked_record_refuted :
  settled exq_ops = true /\
  let s := run apply_q ptake enq_nonblocking (pinit exq_st) exq_ops in
  let o := ask_engines (fun _ => false) (fun _ => false) no_ss Rewrites.isort
             (q_engine (pquiesce s)) (ex_cfg MDefault) exr_up ex_query_other in
  let want := PipelineLists.ask (fun _ => false) (fun _ => false) no_ss Rewrites.isort (q_conf s) (ex_cfg MDefault) exr_up ex_query_other in
  o_orig_kept want = true /\ r_filtered (o_result want) = true /\
  o_orig_kept o = false /\ o_resp o = exr_up [] 0%N.
Proof. exact nonblocking_send_delivers_blocked_record. Qed.
Print Assumptions C02_nonblocking_send_delivers_blocked_record_refuted.

Example C02_drain_then_send_blocks_revealed_record :
  let s := prun (pinit exq_st) exq_ops in
  let o := ask_q (fun _ => false) (fun _ => false) no_ss Rewrites.isort (pquiesce s) (ex_cfg MDefault) exr_up ex_query_other in
  o_orig_kept o = true /\ r_filtered (o_result o) = true.
Proof. exact drain_then_send_blocks_revealed_record. Qed.

(** C02: upstream answers revealing a blocked CNAME target, address or
    HTTPS address hint are not delivered.  Only statements here; proofs live
    in Proofs/Pipeline.v. *)
From Coq Require Import List NArith Bool Permutation.
From AGH Require Import Base.Run Base.NetAddr Base.RuleEngine Model.Pipeline Proofs.Pipeline.
Import ListNotations.
Local Open Scope N_scope.

(** For every answer section [pre ++ rr :: post] (any lengths, any record
    types) whose first offending record is [rr] (its CNAME target / address /
    one of its hints gets a filtered verdict from the rule lists: a block
    rule wins and no allow-list rule matches that same name or address):
    the client receives the blocking-mode answer for that rule, the original
    answer is kept for the log, the recorded reason is FilteredBlockList. *)
Theorem C02_offending_record_blocks :
  forall allow_eng block_eng sb par c up q r pre rr0 post res,
  response_filtering_applies allow_eng block_eng sb par c q ->
  up (q_name q) (q_qtype q) = Some r ->
  rs_answer r = pre ++ rr0 :: post ->
  Forall (clean allow_eng block_eng c (client_settings c q)) pre ->
  check_rr allow_eng block_eng (client_settings c q) (strip_rr c rr0) = Some res ->
  let o := process allow_eng block_eng sb par c up q in
  o_resp o = Some (synthetic c (q_name q) (q_qtype q) (ips_from_rules res)) /\
  o_result o = res /\ r_filtered res = true /\ r_reason res = FilteredBlockList /\
  o_orig_kept o = true /\ o_calls o = [the_call q].
Proof. exact offending_record_blocks. Qed.
Print Assumptions C02_offending_record_blocks.

(** What "offending" means for each record type, in terms of the rule check
    (matchHost on the lower-cased text with the record's type). *)
Theorem C02_offending_means :
  forall allow_eng block_eng (sb par : bytes -> bool) st r res,
  check_rr allow_eng block_eng st r = Some res ->
  r_filtered res = true /\ r_reason res = FilteredBlockList.
Proof. exact check_rr_reason. Qed.
Print Assumptions C02_offending_means.

(** No offending record: the upstream answer is delivered as it came, except
    that IPv6 hints are removed from HTTPS records when AAAA is disabled. *)
Theorem C02_clean_answer_unchanged :
  forall allow_eng block_eng sb par c up q r,
  response_filtering_applies allow_eng block_eng sb par c q ->
  up (q_name q) (q_qtype q) = Some r ->
  Forall (clean allow_eng block_eng c (client_settings c q)) (rs_answer r) ->
  let o := process allow_eng block_eng sb par c up q in
  o_resp o = Some (mkResp (rs_rcode r) (map (strip_rr c) (rs_answer r)) (rs_soa r)) /\
  o_orig_kept o = false /\ r_filtered (o_result o) = false.
Proof. exact clean_answer_unchanged. Qed.
Print Assumptions C02_clean_answer_unchanged.

Theorem C02_no_stripping_when_aaaa_enabled :
  forall c l, c_aaaa_disabled c = false -> map (strip_rr c) l = l.
Proof. exact map_strip_id. Qed.
Print Assumptions C02_no_stripping_when_aaaa_enabled.

(** Response filtering not applicable (name allow-listed, protection off,
    filtering off for the client): the answer is delivered untouched whatever
    it contains. *)
Theorem C02_gate_closed_unchanged :
  forall allow_eng block_eng sb par c up q r,
  passes_request_stage allow_eng block_eng sb par c q ->
  up (q_name q) (q_qtype q) = Some r ->
  (r_reason (check_host allow_eng block_eng sb par (client_settings c q) (trim_dot (q_name q)) (q_qtype q))
     = NotFilteredAllowList \/
   protection_on c = false \/ st_filtering (client_settings c q) = false) ->
  o_resp (process allow_eng block_eng sb par c up q) = Some r /\
  o_orig_kept (process allow_eng block_eng sb par c up q) = false.
Proof. exact gate_closed_unchanged. Qed.
Print Assumptions C02_gate_closed_unchanged.

(** The verdict does not depend on where the offending record sits. *)
Theorem C02_position_independent :
  forall allow_eng block_eng c st ans ans',
  Permutation ans ans' ->
  answer_blocked allow_eng block_eng c st ans = answer_blocked allow_eng block_eng c st ans'.
Proof. exact position_independent. Qed.
Print Assumptions C02_position_independent.

Theorem C02_blocked_iff_some_record_offends :
  forall allow_eng block_eng c st ans,
  answer_blocked allow_eng block_eng c st ans = true <-> Exists (offending allow_eng block_eng c st) ans.
Proof. exact answer_blocked_iff. Qed.
Print Assumptions C02_blocked_iff_some_record_offends.

(** Non-vacuity: "TXT, CNAME b.a.test., A" for x.test with "||a.test^" on
    the block list, nxdomain mode. *)
Example C02_premises_satisfiable :
  let a := match_request [] in let b := match_request ex_block_rules in
  let c := ex_cfg MNXDomain in let st := client_settings c ex_query_other in
  response_filtering_applies a b (fun _ => false) (fun _ => false) c ex_query_other /\
  Forall (clean a b c st) [mkRR [120;46;116;101;115;116;46] 300 (DOther 16 7)] /\
  (exists res, check_rr a b st (strip_rr c (mkRR [120;46;116;101;115;116;46] 300 (DCNAME [98;46;97;46;116;101;115;116;46]))) = Some res) /\
  Forall (clean a b c st) [mkRR [98;46;97;46;116;101;115;116;46] 300
                  (DA (mkTA (mkAddr V4 1572395042 []) [57;51;46;49;56;52;46;50;49;54;46;51;52]))].
Proof. exact ex_response_premises. Qed.

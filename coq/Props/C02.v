(** C02: upstream answers revealing a blocked CNAME target, address or
    HTTPS address hint are not delivered.  Only statements here; proofs live
    in Proofs/Pipeline.v.  Round 2: the configuration includes the legacy
    rewrites, $dnsrewrite rules, the hosts file, safe search, DDR and DHCP;
    the theorems say when response filtering applies and that a rewritten
    question's answer is (as the property allows) not filtered. *)
From Coq Require Import List NArith Bool Permutation.
From AGH Require Import Base.Run Base.NetAddr Base.RuleEngine Model.Pipeline Proofs.Pipeline.
From AGH Require Model.Rewrites.
Import ListNotations.
Local Open Scope N_scope.

(** For every answer section [pre ++ rr :: post] (any lengths, any record
    types) whose first offending record is [rr] (its CNAME target / address /
    one of its hints gets a filtered verdict from the rule lists: a block
    rule wins, no allow-list rule matches and no $dnsrewrite rule applies to
    that same name or address): the client receives the blocking-mode answer
    for that rule with its own question, the original answer is kept for the
    log, the recorded reason is FilteredBlockList. *)
Theorem C02_offending_record_blocks :
  forall allow_eng block_eng sb par ss srt c up q r pre rr0 post res,
  response_filtering_applies allow_eng block_eng sb par ss srt c q ->
  up (q_name q) (q_qtype q) = Some r ->
  rs_answer r = pre ++ rr0 :: post ->
  Forall (clean allow_eng block_eng c (request_settings c q)) pre ->
  check_rr allow_eng block_eng (request_settings c q) (strip_rr c rr0) = Some res ->
  let o := process allow_eng block_eng sb par ss srt c up q in
  o_resp o = Some (synthetic c (q_name q) (q_qtype q) (ips_from_rules res)) /\
  o_result o = res /\ r_filtered res = true /\ r_reason res = FilteredBlockList /\
  o_orig_kept o = true /\ o_calls o = [the_call q] /\ o_qname o = q_name q.
Proof. exact offending_record_blocks. Qed.
Print Assumptions C02_offending_record_blocks.

(** What "offending" means for each record type, in terms of the rule check
    (matchHost on the lower-cased text with the record's type). *)
Theorem C02_offending_means :
  forall allow_eng block_eng (sb par : bytes -> bool) (ss : bytes -> N -> option ssverdict) st r res,
  check_rr allow_eng block_eng st r = Some res ->
  r_filtered res = true /\ r_reason res = FilteredBlockList.
Proof. exact check_rr_reason. Qed.
Print Assumptions C02_offending_means.

(** The interplay with $dnsrewrite, exactly as the code has it: a $dnsrewrite
    rule that applies to a name or address (and no allow-list rule matching)
    makes the rule check report "not filtered", whatever block rules name it;
    such a record in an answer is clean. *)
Theorem C02_dnsrewrite_shadows_block :
  forall allow_eng block_eng st host qt,
  snd (if st_protection st then allow_eng (rq_of st host qt) else (empty_result, false)) = false ->
  matched (dnsrewrite_result (fst (block_eng (rq_of st host qt))) host) = true ->
  r_filtered (match_host allow_eng block_eng st host qt) = false.
Proof. exact dnsrewrite_shadows_block. Qed.
Print Assumptions C02_dnsrewrite_shadows_block.

(** No offending record: the upstream answer is delivered as it came, except
    that IPv6 hints are removed from HTTPS records when AAAA is disabled. *)
Theorem C02_clean_answer_unchanged :
  forall allow_eng block_eng sb par ss srt c up q r,
  response_filtering_applies allow_eng block_eng sb par ss srt c q ->
  up (q_name q) (q_qtype q) = Some r ->
  Forall (clean allow_eng block_eng c (request_settings c q)) (rs_answer r) ->
  let o := process allow_eng block_eng sb par ss srt c up q in
  o_resp o = Some (mkResp (rs_rcode r) (map (strip_rr c) (rs_answer r)) (rs_soa r)) /\
  o_orig_kept o = false /\ r_filtered (o_result o) = false /\ o_qname o = q_name q.
Proof. exact clean_answer_unchanged. Qed.
Print Assumptions C02_clean_answer_unchanged.

Theorem C02_no_stripping_when_aaaa_enabled :
  forall c l, c_aaaa_disabled c = false -> map (strip_rr c) l = l.
Proof. exact map_strip_id. Qed.
Print Assumptions C02_no_stripping_when_aaaa_enabled.

(** Response filtering not applicable (name allow-listed, protection off,
    filtering off for the client): the answer is delivered untouched whatever
    it contains. *)
Theorem C02_gate_closed_unchanged :
  forall allow_eng block_eng sb par ss srt c up q res r,
  passes_request_stage allow_eng block_eng sb par ss srt c q res ->
  up (q_name q) (q_qtype q) = Some r ->
  (r_reason res = NotFilteredAllowList \/
   protection_on c = false \/ st_filtering (request_settings c q) = false) ->
  o_resp (process allow_eng block_eng sb par ss srt c up q) = Some r /\
  o_orig_kept (process allow_eng block_eng sb par ss srt c up q) = false.
Proof. exact gate_closed_unchanged. Qed.
Print Assumptions C02_gate_closed_unchanged.

(** A rewritten question (legacy rewrite to a CNAME without addresses,
    $dnsrewrite CNAME, safe-search CNAME): the target is resolved instead of
    the client's name, the client's question is put back and the CNAME record
    is put in front of whatever the upstream answered; those records are NOT
    examined by response filtering ("neither allow-listed nor rewritten" in
    the property's premise). *)
Theorem C02_rewritten_answer_not_filtered :
  forall allow_eng block_eng sb par ss srt c up q res r,
  prefilter c q = PContinue false ->
  verdict allow_eng block_eng sb par ss srt c q = Some res -> is_rewritten_cname res = true ->
  up (fqdn (r_canon res)) (q_qtype q) = Some r ->
  let o := process allow_eng block_eng sb par ss srt c up q in
  o_resp o = Some (mkResp (rs_rcode r) (rec_cname c (q_name q) (r_canon res) :: rs_answer r) (rs_soa r)) /\
  o_calls o = [(fqdn (r_canon res), q_qtype q)] /\ o_result o = res /\
  o_orig_kept o = false /\ o_qname o = q_name q.
Proof. exact rewritten_cname_outcome. Qed.
Print Assumptions C02_rewritten_answer_not_filtered.

(** The verdict does not depend on where the offending record sits. *)
Theorem C02_position_independent :
  forall allow_eng block_eng c st ans ans',
  Permutation ans ans' ->
  answer_blocked allow_eng block_eng c st ans = answer_blocked allow_eng block_eng c st ans'.
Proof. exact position_independent. Qed.
Print Assumptions C02_position_independent.

Theorem C02_blocked_iff_some_record_offends :
  forall allow_eng block_eng c st ans,
  answer_blocked allow_eng block_eng c st ans = true <-> Exists (offending allow_eng block_eng c st) ans.
Proof. exact answer_blocked_iff. Qed.
Print Assumptions C02_blocked_iff_some_record_offends.

(** Non-vacuity: "TXT, CNAME b.a.test., A" for x.test with "||a.test^" on
    the block list, nxdomain mode. *)
Example C02_premises_satisfiable :
  let a := match_request [] in let b := match_request ex_block_rules in
  let c := ex_cfg MNXDomain in let st := request_settings c ex_query_other in
  response_filtering_applies a b (fun _ => false) (fun _ => false) no_ss Rewrites.isort c ex_query_other /\
  Forall (clean a b c st) [mkRR [120;46;116;101;115;116;46] 300 (DOther 16 7)] /\
  (exists res, check_rr a b st (strip_rr c (mkRR [120;46;116;101;115;116;46] 300 (DCNAME [98;46;97;46;116;101;115;116;46]))) = Some res) /\
  Forall (clean a b c st) [mkRR [98;46;97;46;116;101;115;116;46] 300
                  (DA (mkTA (mkAddr V4 1572395042 []) [57;51;46;49;56;52;46;50;49;54;46;51;52]))].
Proof. exact ex_response_premises. Qed.

(** Non-vacuity of the rewritten case: the rewrite "x.test -> b.a.test"
    with "||a.test^" on the block list; the answer for the target is
    delivered behind the CNAME. *)
Example C02_rewritten_premises_satisfiable :
  let c := ex_cfg_with MDefault None [ex_rw_to_blocked] BHEmpty in
  prefilter c ex_query_other = PContinue false /\
  exists res, verdict (match_request []) (match_request ex_block_rules) (fun _ => false) (fun _ => false) no_ss
                Rewrites.isort c ex_query_other = Some res /\ is_rewritten_cname res = true.
Proof. cbv zeta. split; [vm_compute; reflexivity|]. eexists. split; vm_compute; reflexivity. Qed.

(** * Rule lists switched on and off while the server runs (round 3)

    The property quantifies over all rule sets; a running server goes through
    several (POST /control/filtering/set_url enables and disables block and
    allow lists, the engines are rebuilt).  Model/PipelineLists.v: the engines
    in force are built from the user rules and the lists enabled NOW. *)
From AGH Require Import Model.PipelineLists Proofs.PipelineLists.

(** After set_url enabled:false for every allow list (any state before,
    any order, any rules matched before): the allow engine matches nothing
    and the block side is unchanged. *)
Theorem C02_all_allow_lists_disabled_exempt_nothing :
  forall st urls,
  incl (map fl_url (ls_allow st)) urls ->
  (forall rq, match_request (allow_rules (apply_changes st (disable_allow urls))) rq = (empty_result, false)) /\
  block_rules (apply_changes st (disable_allow urls)) = block_rules st.
Proof. exact all_allow_lists_disabled. Qed.
Print Assumptions C02_all_allow_lists_disabled_exempt_nothing.

(** No allow list enabled: the rule check applied to the question's name and
    to every record of an answer is that of a server without allow lists. *)
Theorem C02_no_allow_list_enabled_record_check :
  forall st block_eng s host qt,
  all_off (ls_allow st) ->
  match_host (match_request (allow_rules st)) block_eng s host qt =
  match_host (fun _ => (empty_result, false)) block_eng s host qt.
Proof. exact no_allow_list_enabled_match_host. Qed.
Print Assumptions C02_no_allow_list_enabled_record_check.

(** The outcome of a query after two histories of changes is the same
    whenever the same rules are in force at the end. *)
Theorem C02_outcome_depends_on_rules_in_force :
  forall sb par ss srt st chs chs' c up q,
  allow_rules (apply_changes st chs) = allow_rules (apply_changes st chs') ->
  block_rules (apply_changes st chs) = block_rules (apply_changes st chs') ->
  ask_after sb par ss srt st chs c up q = ask_after sb par ss srt st chs' c up q.
Proof. exact history_independent. Qed.
Print Assumptions C02_outcome_depends_on_rules_in_force.

(** Only rules of enabled lists are in force. *)
Theorem C02_rules_in_force_come_from_enabled_lists :
  forall ls r, In r (active ls) -> exists f, In f ls /\ fl_on f = true /\ In r (fl_rules f).
Proof. exact active_only_enabled. Qed.
Print Assumptions C02_rules_in_force_come_from_enabled_lists.

(** Non-vacuity (the seeded scenario): user rule ||b.a.test^, one enabled
    allow list with a rule for the same name: exempted before, not after. *)
Example C02_allow_list_disabled_scenario :
  snd (match_request (allow_rules exl_state) exl_rq) = true /\
  snd (match_request (allow_rules (apply_changes exl_state (disable_allow [7]))) exl_rq) = false /\
  snd (match_request (block_rules (apply_changes exl_state (disable_allow [7]))) exl_rq) = true.
Proof. split; [exact exl_before | exact exl_after]. Qed.

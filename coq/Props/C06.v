(** C06: custom DNS rewrites follow the documented precedence and always
    terminate.  Only statements here; proofs live in Proofs/Rewrites.v.

    [sort] is ANY function returning a permutation of its argument that is
    sorted by [Compare] ([sorted_by_compare]: no later element is smaller
    than an earlier one): Go's slices.SortFunc is not stable, and nothing
    here depends on stability.  [isort] (used by the evaluator) is one. *)
From Coq Require Import ZArith NArith List Bool Permutation Sorted String.
From AGH Require Import Base.Run Model.Rewrites Proofs.Rewrites Model.RewritesEdit Proofs.RewritesEdit
  Proofs.RewritesShadow Model.RewritesCache Proofs.RewritesCache Proofs.RewritesChain Proofs.RewritesFirst.
Import ListNotations.

Definition is_sort (sort : list entry -> list entry) : Prop :=
  (forall l, Permutation (sort l) l) /\ (forall l, sorted_by_compare (sort l)).

(** The hypotheses on [sort] are satisfiable, and [Compare] is a strict weak
    order (what slices.SortFunc requires to deliver a sorted result). *)
Theorem C06_sort_exists : forall l, Permutation (isort l) l /\ sorted_by_compare (isort l).
Proof. exact (fun l => conj (isort_perm l) (isort_sorted l)). Qed.
Print Assumptions C06_sort_exists.

Theorem C06_compare_strict_weak_order :
  (forall a, lt_entry a a = false) /\
  (forall a b c, lt_entry a b = true -> lt_entry b c = true -> lt_entry a c = true) /\
  (forall a b c, lt_entry a b = false -> lt_entry b c = false -> lt_entry a c = false).
Proof. exact (conj lt_entry_irrefl (conj lt_entry_trans lt_entry_negtrans)). Qed.
Print Assumptions C06_compare_strict_weak_order.

(** The CNAME chase never runs out of its [S (length table)] units of fuel:
    processRewrites and CheckHost return for every table, name and type
    (CNAME cycles of any shape included). *)
Theorem C06_terminates :
  forall sort, (forall l, Permutation (sort l) l) ->
  forall (tbl : list entry) (host : bytes) (qt : N),
    process_rewrites sort tbl host qt <> None /\
    forall enabled, check_host sort enabled tbl host qt <> None.
Proof. exact terminates. Qed.
Print Assumptions C06_terminates.

(** Every address in a result belongs to a table entry that covers the
    finally resolved name (the canonical name, or the queried name when no
    CNAME was followed) and has the requested type. *)
Theorem C06_addresses_from_table :
  forall sort, (forall l, Permutation (sort l) l) ->
  forall tbl host qt r i,
    process_rewrites sort tbl host qt = Some r -> In i (r_ips r) ->
    exists final,
      (final = r_canon r \/ (r_canon r = [] /\ final = host)) /\
      exists e, In e tbl /\ matches_host e final = true /\ e_ip e = Some i /\
                rtype_code (e_type e) = qt /\ (qt = qA \/ qt = qAAAA).
Proof. exact addresses_from_table. Qed.
Print Assumptions C06_addresses_from_table.

Theorem C06_addresses_from_table_check_host :
  forall sort, (forall l, Permutation (sort l) l) ->
  forall enabled tbl host qt r i,
    check_host sort enabled tbl host qt = Some r -> In i (r_ips r) ->
    exists final,
      (final = r_canon r \/ (r_canon r = [] /\ final = to_lower host)) /\
      exists e, In e tbl /\ matches_host e final = true /\ e_ip e = Some i /\
                rtype_code (e_type e) = qt /\ (qt = qA \/ qt = qAAAA).
Proof. exact check_host_addresses. Qed.
Print Assumptions C06_addresses_from_table_check_host.

(** For a normalised table the requested type is the address family. *)
Theorem C06_addresses_family :
  forall sort, (forall l, Permutation (sort l) l) ->
  forall raws host qt r i,
    process_rewrites sort (map normalize raws) host qt = Some r -> In i (r_ips r) ->
    ip_is4 i = N.eqb qt qA.
Proof. exact addresses_family. Qed.
Print Assumptions C06_addresses_family.

(** CNAME entries take precedence over address entries: if any CNAME entry
    covers the name, the entry acted upon first is a CNAME. *)
Theorem C06_cname_over_address :
  forall sort, (forall l, Permutation (sort l) l) -> (forall l, sorted_by_compare (sort l)) ->
  forall tbl host qt,
    (exists e, In e tbl /\ matches_host e host = true /\ is_cname e = true) ->
    exists r rest, fst (find_rewrites sort tbl host qt) = r :: rest /\ is_cname r = true.
Proof. exact cname_over_address. Qed.
Print Assumptions C06_cname_over_address.

(** Within one kind (CNAME / address) an exact-name entry shadows wildcard
    entries: a wildcard entry is used only if every entry of its kind that
    covers the name for this type is a wildcard. *)
Theorem C06_exact_shadows_wildcard :
  forall sort, (forall l, Permutation (sort l) l) -> (forall l, sorted_by_compare (sort l)) ->
  forall tbl host qt rws m r e,
    find_rewrites sort tbl host qt = (rws, m) -> In r rws ->
    is_wildcard (e_dom r) = true ->
    (In e tbl /\ matches_host e host = true /\ match_qtype e qt = true) ->
    is_cname e = is_cname r ->
    is_wildcard (e_dom e) = true.
Proof. exact exact_shadows_wildcard. Qed.
Print Assumptions C06_exact_shadows_wildcard.

(** Among wildcards the most specific wins: a wildcard entry that is used is
    the only entry used and no entry of its kind has a longer pattern. *)
Theorem C06_most_specific_wildcard :
  forall sort, (forall l, Permutation (sort l) l) -> (forall l, sorted_by_compare (sort l)) ->
  forall tbl host qt rws m r e,
    find_rewrites sort tbl host qt = (rws, m) -> In r rws ->
    is_wildcard (e_dom r) = true ->
    (In e tbl /\ matches_host e host = true /\ match_qtype e qt = true) ->
    is_cname e = is_cname r ->
    (length (e_dom e) <= length (e_dom r))%nat.
Proof. exact most_specific_wildcard. Qed.
Print Assumptions C06_most_specific_wildcard.

Theorem C06_wildcard_used_alone :
  forall sort, (forall l, Permutation (sort l) l) -> (forall l, sorted_by_compare (sort l)) ->
  forall tbl host qt rws m r,
    find_rewrites sort tbl host qt = (rws, m) -> In r rws ->
    is_wildcard (e_dom r) = true ->
    rws = [r] /\
    forall e, (In e tbl /\ matches_host e host = true /\ match_qtype e qt = true) ->
              lt_entry e r = false.
Proof. exact wildcard_result. Qed.
Print Assumptions C06_wildcard_used_alone.

(** Exceptions, at the level of CheckHost.  "name -> name": *)
Theorem C06_exceptions_self :
  forall sort, (forall l, Permutation (sort l) l) -> (forall l, sorted_by_compare (sort l)) ->
  forall enabled tbl host qt,
    (exists e, In e tbl /\ e_dom e = to_lower host /\ is_cname e = true) ->
    (forall e, In e tbl -> e_dom e = to_lower host -> is_cname e = true ->
               e_ans e = to_lower host) ->
    check_host sort enabled tbl host qt = Some empty_result.
Proof. exact check_host_self_exception. Qed.
Print Assumptions C06_exceptions_self.

(** "name -> A" and "name -> AAAA" pass queries of that type on (no CNAME
    entry covering the name). *)
Theorem C06_exceptions_type :
  forall sort, (forall l, Permutation (sort l) l) -> (forall l, sorted_by_compare (sort l)) ->
  forall enabled tbl host qt x,
    is_wildcard (to_lower host) = false ->
    (forall e, In e tbl -> matches_host e (to_lower host) = true -> is_cname e = false) ->
    In x tbl -> e_dom x = to_lower host ->
    (rtype_code (e_type x) = qt /\ is_addr_q qt = true /\ e_ip x = None) ->
    check_host sort enabled tbl host qt = Some empty_result.
Proof. exact check_host_type_exception. Qed.
Print Assumptions C06_exceptions_type.

(** ... and these are the only ways a covered name is passed on: a CNAME
    entry pointing at the queried name or at its own pattern, or an "A" /
    "AAAA" entry of exactly the requested type. *)
Theorem C06_exceptions_only :
  forall sort, (forall l, Permutation (sort l) l) ->
  forall tbl host qt,
    host <> [] -> check_host sort true tbl host qt = Some empty_result ->
    (exists e, In e tbl /\ matches_host e (to_lower host) = true) ->
    (exists e, In e tbl /\ is_cname e = true /\
               (e_ans e = to_lower host \/ e_ans e = e_dom e)) \/
    (exists e final, In e tbl /\ matches_host e final = true /\
               rtype_code (e_type e) = qt /\ is_addr_q qt = true /\ e_ip e = None).
Proof. exact check_host_passes_only_by_exception. Qed.
Print Assumptions C06_exceptions_only.

(** A name covered by the table without a value for the requested type is
    rewritten to an empty answer (so it is answered locally, not upstream). *)
Theorem C06_matched_without_value :
  forall (sort : list entry -> list entry) tbl host qt,
    host <> [] ->
    (exists e, In e tbl /\ matches_host e (to_lower host) = true) ->
    (forall e, In e tbl -> matches_host e (to_lower host) = true -> match_qtype e qt = false) ->
    check_host sort true tbl host qt =
      Some {| r_reason := Rewritten; r_canon := []; r_ips := [] |}.
Proof. exact check_host_matched_without_value. Qed.
Print Assumptions C06_matched_without_value.

(** The AGHTechDoc examples (Proofs/Rewrites.v, module DocExamples), closed
    by vm_compute on the model: *)
Theorem C06_doc_examples :
  let open := DocExamples.ask in
  open DocExamples.t1 "host.com"%string qA = DocExamples.answer "" [DocExamples.ip1234] /\
  open DocExamples.t1 "host.com"%string qAAAA = DocExamples.answer "" [] /\
  open DocExamples.t2 "host.com"%string qA = DocExamples.answer "" [] /\
  open DocExamples.t2 "host.com"%string qAAAA = DocExamples.answer "" [DocExamples.ip6_1] /\
  open DocExamples.t3 "sub.host.com"%string qA = DocExamples.answer "host.com" [] /\
  open DocExamples.t4 "sub.host.com"%string qA = DocExamples.answer "host.com" [DocExamples.ip1234] /\
  open DocExamples.t4 "sub.host.com"%string qAAAA = DocExamples.answer "host.com" [] /\
  open DocExamples.t5 "my.host.com"%string qA = DocExamples.answer "" [DocExamples.ip1234] /\
  open DocExamples.t5 "my.host.com"%string qAAAA = DocExamples.answer "" [] /\
  open DocExamples.t5 "pass.host.com"%string qA = DocExamples.upstream /\
  open DocExamples.t5 "pass.host.com"%string qAAAA = DocExamples.upstream /\
  open DocExamples.t6 "host.com"%string qA = DocExamples.answer "" [DocExamples.ip1234] /\
  open DocExamples.t6 "host.com"%string qAAAA = DocExamples.upstream /\
  open DocExamples.t7 "host.com"%string qA = DocExamples.upstream /\
  open DocExamples.t7 "host.com"%string qAAAA = DocExamples.answer "" [].
Proof. exact DocExamples.all. Qed.
Print Assumptions C06_doc_examples.

(** ** Response side (what the client receives), for any upstream *)

Theorem C06_response_terminates :
  forall sort, (forall l, Permutation (sort l) l) ->
  forall upstream enabled tbl qname qt,
    respond sort upstream enabled tbl qname qt <> None.
Proof. exact respond_terminates. Qed.
Print Assumptions C06_response_terminates.

(** A covered name without a value of the requested type gets an empty
    NOERROR answer and the upstream is not asked. *)
Theorem C06_matched_without_value_response :
  forall (sort : list entry -> list entry) upstream tbl qname qt,
    qname <> [] ->
    (exists e, In e tbl /\ matches_host e (to_lower qname) = true) ->
    (forall e, In e tbl -> matches_host e (to_lower qname) = true -> match_qtype e qt = false) ->
    respond sort upstream true tbl qname qt =
      Some {| rp_qname := qname; rp_rcode := 0; rp_answer := []; rp_upstream := [] |}.
Proof. exact respond_matched_without_value. Qed.
Print Assumptions C06_matched_without_value_response.

(** A CNAME without table addresses is resolved upstream: one question, for
    the canonical name; the delivered message carries the original question
    and the CNAME in front of the upstream's records. *)
Theorem C06_cname_via_upstream :
  forall (sort : list entry -> list entry) upstream enabled tbl qname qt r,
    check_host sort enabled tbl qname qt = Some r ->
    r_reason r = Rewritten -> r_canon r <> [] -> r_ips r = [] ->
    (* Result.CanonNameRewritten is not set: the canonical name is outside
       the table (C06_cname_outside_table_via_upstream), or covered by the
       canonical-name entry that ended the chase (#4016, a cycle) *)
    covered_flag sort enabled tbl qname qt = false ->
    respond sort upstream enabled tbl qname qt =
      Some {| rp_qname := qname; rp_rcode := fst (upstream (r_canon r) qt);
              rp_answer := RR_CNAME qname (r_canon r) :: snd (upstream (r_canon r) qt);
              rp_upstream := [(r_canon r, qt)] |}.
Proof. exact respond_cname_via_upstream. Qed.
Print Assumptions C06_cname_via_upstream.

(** Addresses delivered without asking the upstream are addresses of the
    filtering result (hence, by C06_addresses_from_table_check_host, of table
    entries covering the resolved name with the requested family). *)
Theorem C06_response_local_addresses :
  forall (sort : list entry -> list entry) upstream enabled tbl qname qt p owner v,
    respond sort upstream enabled tbl qname qt = Some p -> rp_upstream p = [] ->
    In (RR_A owner v) (rp_answer p) \/ In (RR_AAAA owner v) (rp_answer p) ->
    exists i r, check_host sort enabled tbl qname qt = Some r /\ In i (r_ips r) /\ ip_val i = v.
Proof. exact respond_local_addresses. Qed.
Print Assumptions C06_response_local_addresses.

(** ** Letter case (round 2)

    [normalize] lower-cases the domain first, for every kind of entry (the
    "A" / "AAAA" exceptions included), and the answer when it is a canonical
    name: entries that differ only in the ASCII letter case of the domain
    (and, for CNAME entries, of the canonical name) normalise to the same
    entry, so every theorem above, stated on normalised tables, holds for
    every spelling. *)
Theorem C06_normalize_case_insensitive :
  (forall r, e_dom (normalize r) = to_lower (w_dom r)) /\
  (forall r, e_ans (normalize r) =
             if is_cname (normalize r) then to_lower (w_ans r) else w_ans r) /\
  (forall r r', to_lower (w_dom r) = to_lower (w_dom r') -> w_ans r = w_ans r' ->
                w_parse r = w_parse r' -> normalize r = normalize r') /\
  (forall r r',
     (w_parse r = None /\ w_ans r <> ans_A /\ w_ans r <> ans_AAAA) ->
     (w_parse r' = None /\ w_ans r' <> ans_A /\ w_ans r' <> ans_AAAA) ->
     to_lower (w_dom r) = to_lower (w_dom r') -> to_lower (w_ans r) = to_lower (w_ans r') ->
     normalize r = normalize r').
Proof.
  exact (conj normalize_dom (conj normalize_ans
          (conj normalize_case_insensitive normalize_cname_case_insensitive))).
Qed.
Print Assumptions C06_normalize_case_insensitive.

Theorem C06_normalize_table_case_insensitive :
  forall raws raws', Forall2 same_raw raws raws' -> map normalize raws = map normalize raws'.
Proof. exact normalize_table_case_insensitive. Qed.
Print Assumptions C06_normalize_table_case_insensitive.

(** The spelling of the queried name does not matter either. *)
Theorem C06_query_case_insensitive :
  forall (sort : list entry -> list entry) enabled tbl host host' qt,
    to_lower host = to_lower host' ->
    check_host sort enabled tbl host qt = check_host sort enabled tbl host' qt.
Proof. exact check_host_case_insensitive. Qed.
Print Assumptions C06_query_case_insensitive.

(** "Name -> A" / "Name -> AAAA" typed in any letter case passes queries of
    that type on, for the name in any letter case. *)
Theorem C06_exceptions_case_insensitive :
  forall sort, (forall l, Permutation (sort l) l) -> (forall l, sorted_by_compare (sort l)) ->
  forall enabled raws host qt x,
    In x raws -> to_lower (w_dom x) = to_lower host ->
    (w_ans x = ans_A /\ qt = qA) \/ (w_ans x = ans_AAAA /\ qt = qAAAA) ->
    is_wildcard (to_lower host) = false ->
    (forall e, In e (map normalize raws) -> matches_host e (to_lower host) = true ->
               is_cname e = false) ->
    check_host sort enabled (map normalize raws) host qt = Some empty_result.
Proof. exact type_exception_any_case. Qed.
Print Assumptions C06_exceptions_case_insensitive.

(** "Name -> name" with domain and answer typed in any letter case (all
    CNAME entries for exactly this name pointing at the name itself, in any
    letter case) passes every query for the name on. *)
Theorem C06_exceptions_self_case_insensitive :
  forall sort, (forall l, Permutation (sort l) l) -> (forall l, sorted_by_compare (sort l)) ->
  forall enabled raws host qt x,
    In x raws -> to_lower (w_dom x) = to_lower host -> to_lower (w_ans x) = to_lower host ->
    is_cname (normalize x) = true ->
    (forall y, In y raws -> to_lower (w_dom y) = to_lower host -> is_cname (normalize y) = true ->
               to_lower (w_ans y) = to_lower host) ->
    check_host sort enabled (map normalize raws) host qt = Some empty_result.
Proof. exact self_exception_any_case_raw. Qed.
Print Assumptions C06_exceptions_self_case_insensitive.

(** ** Response side, every upstream reply (round 2) *)

(** Every delivered message carries the original question, whatever the
    upstream replied (any RCODE, any answer section). *)
Theorem C06_response_question_original :
  forall (sort : list entry -> list entry) upstream enabled tbl qname qt p,
    respond sort upstream enabled tbl qname qt = Some p -> rp_qname p = qname.
Proof. exact respond_question. Qed.
Print Assumptions C06_response_question_original.

(** The RCODE is the upstream's (its reply object is reused), 0 for a local
    answer; at most one question is put to the upstream. *)
Theorem C06_response_rcode :
  forall (sort : list entry -> list entry) upstream enabled tbl qname qt p,
    respond sort upstream enabled tbl qname qt = Some p ->
    match rp_upstream p with
    | [] => rp_rcode p = 0%N
    | (n, t) :: rest => rest = [] /\ t = qt /\ rp_rcode p = fst (upstream n t)
    end.
Proof. exact respond_rcode. Qed.
Print Assumptions C06_response_rcode.

(** A CNAME without table addresses, for EVERY reply [(rc, ans)] of the
    upstream to the canonical name (NXDOMAIN, SERVFAIL, NOERROR with an empty
    answer section, ...): original question, the upstream's RCODE, the CNAME
    in front of the upstream's records. *)
Theorem C06_cname_via_upstream_negative :
  forall (sort : list entry -> list entry) upstream enabled tbl qname qt r rc ans,
    check_host sort enabled tbl qname qt = Some r ->
    r_reason r = Rewritten -> r_canon r <> [] -> r_ips r = [] ->
    covered_flag sort enabled tbl qname qt = false ->
    upstream (r_canon r) qt = (rc, ans) ->
    respond sort upstream enabled tbl qname qt =
      Some {| rp_qname := qname; rp_rcode := rc;
              rp_answer := RR_CNAME qname (r_canon r) :: ans;
              rp_upstream := [(r_canon r, qt)] |}.
Proof. exact respond_cname_via_upstream_any_reply. Qed.
Print Assumptions C06_cname_via_upstream_negative.

(** An upstream whose exchange may fail ([None]): [respond_e] agrees with
    [respond] when it does not fail; the message that is sent carries the
    original question also when the handler fails; it fails only because the
    one exchange failed, and then with a SERVFAIL without records. *)
Theorem C06_response_failing_upstream :
  forall sort, (forall l, Permutation (sort l) l) ->
  (forall upstream enabled tbl qname qt,
     respond_e sort (fun n t => Some (upstream n t)) enabled tbl qname qt =
     option_map (fun p => (false, p)) (respond sort upstream enabled tbl qname qt)) /\
  (forall upstream enabled tbl qname qt, respond_e sort upstream enabled tbl qname qt <> None) /\
  (forall upstream enabled tbl qname qt failed p,
     respond_e sort upstream enabled tbl qname qt = Some (failed, p) -> rp_qname p = qname) /\
  (forall upstream enabled tbl qname qt p,
     respond_e sort upstream enabled tbl qname qt = Some (true, p) ->
     exists n, rp_upstream p = [(n, qt)] /\ upstream n qt = None /\
               rp_rcode p = rcode_servfail /\ rp_answer p = []).
Proof.
  exact (fun sort H => conj (respond_e_no_error sort)
          (conj (respond_e_terminates sort H)
            (conj (respond_e_question sort) (respond_e_failed_only_by_upstream sort)))).
Qed.
Print Assumptions C06_response_failing_upstream.

(** ** The table edited through the HTTP API (round 3)

    Model/RewritesEdit.v: POST /control/rewrite/add, POST
    /control/rewrite/delete, PUT /control/rewrite/update and GET
    /control/rewrite/list as the handlers of rewritehttp.go implement them.
    [parse] is netip.ParseAddr: any function whose verdict "no address" does
    not change when the text is lower-cased ([parse_case]); the harness
    checks that on every answer text. *)
Definition parse_case (parse : bytes -> option ip) : Prop :=
  forall s, parse s = None -> parse (to_lower s) = None.

(** The hypothesis is satisfiable by a function that accepts an address. *)
Theorem C06_edit_parse_hypothesis_satisfiable :
  parse_case EditExamples.parse_ex /\
  EditExamples.parse_ex (bs "1.2.3.4") = Some EditExamples.ip1234.
Proof. exact (conj EditExamples.parse_ex_lower eq_refl). Qed.
Print Assumptions C06_edit_parse_hypothesis_satisfiable.

(** For every configured table and every history of requests, the stored
    table is the normalisation of the list the API reports: every stored
    entry carries the IP and the type that its own (Domain, Answer) denote,
    never those of an earlier version of the rule. *)
Theorem C06_edit_table_is_normalised_list :
  forall parse, parse_case parse ->
  forall (cfg : list (bytes * bytes)) (ops : list eop),
    let tbl := fst (run_edits parse (load parse cfg) ops) in
    tbl = load parse (reported tbl).
Proof. exact edit_table_is_normalised_list. Qed.
Print Assumptions C06_edit_table_is_normalised_list.

(** Hence every answer is the answer of a filter freshly created from the
    reported list, and all the theorems above, stated on normalised tables,
    hold for the table the API shows. *)
Theorem C06_edit_answers_from_reported_table :
  forall parse, parse_case parse ->
  forall (sort : list entry -> list entry) cfg ops enabled host qt,
    let tbl := fst (run_edits parse (load parse cfg) ops) in
    check_host sort enabled tbl host qt =
      check_host sort enabled (load parse (reported tbl)) host qt /\
    process_rewrites sort tbl host qt =
      process_rewrites sort (load parse (reported tbl)) host qt.
Proof. exact edit_answers_from_reported_table. Qed.
Print Assumptions C06_edit_answers_from_reported_table.

(** Every address answered after any history is what the answer text of a
    REPORTED rule denotes; that rule's pattern covers the finally resolved
    name and the address has the requested family. *)
Theorem C06_edit_addresses_from_reported_list :
  forall parse, parse_case parse ->
  forall sort, (forall l, Permutation (sort l) l) ->
  forall cfg ops enabled host qt r i,
    let tbl := fst (run_edits parse (load parse cfg) ops) in
    check_host sort enabled tbl host qt = Some r -> In i (r_ips r) ->
    exists final d a,
      (final = r_canon r \/ (r_canon r = [] /\ final = to_lower host)) /\
      In (d, a) (reported tbl) /\ parse a = Some i /\
      (d = final \/ match_wildcard final d = true) /\
      qt = (if ip_is4 i then qA else qAAAA).
Proof. exact edit_addresses_from_reported_list. Qed.
Print Assumptions C06_edit_addresses_from_reported_list.

(** Premises satisfiable: an address is answered after a history. *)
Theorem C06_edit_addresses_example :
  let tbl := fst (run_edits EditExamples.parse_ex (load EditExamples.parse_ex EditExamples.cfg)
                    [EDel (bs "a.test") (bs "1.2.3.4"); EAdd (bs "X.Test") (bs "a.test")]) in
  reported tbl = [(bs "*.test", bs "1.2.3.4"); (bs "x.test", bs "a.test")] /\
  check_host isort true tbl (bs "x.test") qA =
    Some {| r_reason := Rewritten; r_canon := bs "a.test"; r_ips := [EditExamples.ip1234] |}.
Proof. exact EditExamples.history_answers_address. Qed.
Print Assumptions C06_edit_addresses_example.

(** After an accepted add or update whose new rule is "name -> A" ("AAAA"),
    queries of that type for the name, in any spelling, are passed on (no
    CNAME rule covering the name): in particular the address a rule carried
    before it was updated into the exception is not answered any more. *)
Theorem C06_edit_update_exception :
  forall (parse : bytes -> option ip),
  forall sort, (forall l, Permutation (sort l) l) -> (forall l, sorted_by_compare (sort l)) ->
  forall tbl o d a enabled host qt,
    new_rule o = Some (d, a) -> snd (apply_op parse tbl o) = StOK ->
    (a = ans_A /\ qt = qA) \/ (a = ans_AAAA /\ qt = qAAAA) ->
    to_lower d = to_lower host -> is_wildcard (to_lower host) = false ->
    (forall e, In e (fst (apply_op parse tbl o)) -> matches_host e (to_lower host) = true ->
               is_cname e = false) ->
    check_host sort enabled (fst (apply_op parse tbl o)) host qt = Some empty_result.
Proof. exact edit_exception_effective. Qed.
Print Assumptions C06_edit_update_exception.

(** Premises satisfiable, on the scenario "a.test -> 1.2.3.4 updated into
    A.Test -> A beside *.test -> 1.2.3.4": answered 1.2.3.4 before, passed on
    after, the wildcard still serves its other names. *)
Theorem C06_edit_update_exception_example :
  let parse := EditExamples.parse_ex in
  let tbl := load parse EditExamples.cfg in
  (new_rule EditExamples.upd = Some (bs "A.Test", ans_A) /\
   snd (apply_op parse tbl EditExamples.upd) = StOK /\
   to_lower (bs "A.Test") = to_lower (bs "a.test") /\
   is_wildcard (to_lower (bs "a.test")) = false /\
   forallb (fun e => negb (matches_host e (to_lower (bs "a.test"))) || negb (is_cname e))
           (fst (apply_op parse tbl EditExamples.upd)) = true) /\
  (check_host isort true tbl (bs "a.test") qA =
     Some {| r_reason := Rewritten; r_canon := []; r_ips := [EditExamples.ip1234] |} /\
   snd (apply_op parse tbl EditExamples.upd) = StOK /\
   reported (fst (apply_op parse tbl EditExamples.upd)) =
     [(bs "a.test", ans_A); (bs "*.test", bs "1.2.3.4")] /\
   check_host isort true (fst (apply_op parse tbl EditExamples.upd)) (bs "a.test") qA =
     Some empty_result /\
   check_host isort true (fst (apply_op parse tbl EditExamples.upd)) (bs "b.test") qA =
     Some {| r_reason := Rewritten; r_canon := []; r_ips := [EditExamples.ip1234] |}).
Proof.
  exact (conj EditExamples.update_to_exception_premises EditExamples.update_to_exception).
Qed.
Print Assumptions C06_edit_update_exception_example.

(** What each request does to the reported list.  add: the new rule, domain
    lower-cased, is appended (duplicates included).  delete: every rule whose
    reported texts are bytewise the target goes, the rest keeps its order,
    the reply is 200 even when nothing went.  update: rejected exactly when
    the list does not report the target, else the first such rule is
    replaced in its place. *)
Theorem C06_edit_requests :
  forall (parse : bytes -> option ip) tbl,
  (forall d a,
     let e := normalize (fresh parse d a) in
     apply_op parse tbl (EAdd d a) = (tbl ++ [e], StOK) /\
     reported (tbl ++ [e]) = reported tbl ++ [(to_lower d, e_ans e)]) /\
  (forall d a,
     snd (apply_op parse tbl (EDel d a)) = StOK /\
     reported (fst (apply_op parse tbl (EDel d a))) =
       filter (fun p => negb (eqb_texts p (d, a))) (reported tbl)) /\
  (forall d a, ~ In (d, a) (reported tbl) -> fst (apply_op parse tbl (EDel d a)) = tbl) /\
  (forall td ta nd na,
     let n := normalize (fresh parse nd na) in
     (~ In (td, ta) (reported tbl) /\ apply_op parse tbl (EUpd td ta nd na) = (tbl, StBad)) \/
     (exists pre s post,
        tbl = pre ++ s :: post /\ (e_dom s, e_ans s) = (td, ta) /\
        ~ In (td, ta) (reported pre) /\
        apply_op parse tbl (EUpd td ta nd na) = (pre ++ n :: post, StOK))).
Proof.
  exact (fun parse tbl =>
    conj (edit_add_spec parse tbl)
      (conj (edit_delete_spec parse tbl)
        (conj (edit_delete_missing_is_noop parse tbl) (edit_update_spec parse tbl)))).
Qed.
Print Assumptions C06_edit_requests.

(** A rejected request (400) leaves the table as it was. *)
Theorem C06_edit_failed_op_is_noop :
  forall (parse : bytes -> option ip) tbl o,
    snd (apply_op parse tbl o) = StBad -> fst (apply_op parse tbl o) = tbl.
Proof. exact edit_failed_op_is_noop. Qed.
Print Assumptions C06_edit_failed_op_is_noop.

Theorem C06_edit_failed_op_example :
  let parse := EditExamples.parse_ex in
  snd (apply_op parse (load parse EditExamples.cfg) EBad) = StBad /\
  snd (apply_op parse (load parse EditExamples.cfg)
         (EUpd (bs "x.test") ans_A (bs "x.test") ans_AAAA)) = StBad /\
  ~ In (bs "x.test", ans_A) (reported (load parse EditExamples.cfg)).
Proof. exact EditExamples.rejected_requests. Qed.
Print Assumptions C06_edit_failed_op_example.

(** Letter case of the TARGET of delete / update (observed in the code, not
    claimed by the property): stored domains are lower-cased and the target
    is compared as sent, so a target whose domain has a capital letter is
    never found after any history; the API finds exactly the spelling that
    GET /control/rewrite/list shows. *)
Theorem C06_edit_target_compared_as_sent :
  forall parse, parse_case parse ->
  forall cfg ops d a,
    to_lower d <> d ->
    ~ In (d, a) (reported (fst (run_edits parse (load parse cfg) ops))).
Proof.
  exact (fun parse H cfg ops d a =>
    edit_target_with_capitals_not_found parse (fst (run_edits parse (load parse cfg) ops)) d a
      (run_edits_canonical parse H ops _ (load_canonical parse H cfg))).
Qed.
Print Assumptions C06_edit_target_compared_as_sent.

Theorem C06_edit_target_example :
  let parse := EditExamples.parse_ex in
  reported (load parse EditExamples.cfg_caps) = [(bs "a.test", bs "1.2.3.4")] /\
  apply_op parse (load parse EditExamples.cfg_caps) (EDel (bs "A.Test") (bs "1.2.3.4")) =
    (load parse EditExamples.cfg_caps, StOK) /\
  apply_op parse (load parse EditExamples.cfg_caps)
      (EUpd (bs "A.Test") (bs "1.2.3.4") (bs "a.test") ans_A) =
    (load parse EditExamples.cfg_caps, StBad) /\
  to_lower (bs "A.Test") <> bs "A.Test".
Proof. exact EditExamples.target_with_capitals. Qed.
Print Assumptions C06_edit_target_example.

(** * Round 4: an exact entry shadows wildcard entries whatever its kind

    [speaks_for e qt]: the entry takes part in answering a query of type
    [qt]: a canonical name (every type); for A / AAAA an address or
    exception of the requested family, or the "A" / "AAAA" exception of the
    OTHER family ("pass A only": AGHTechDoc answers the other family with
    the empty answer; matchesQType: "the entry is set to allow only the
    other type").  The definition does not mention the model's matchesQType;
    this is where the two are tied. *)
Theorem C06_speaks_for_is_matchesQType :
  forall e qt,
    (is_cname e = true \/
     (is_addr_q qt = true /\ (rtype_code (e_type e) = qt \/ e_ip e = None)))
    <-> match_qtype e qt = true.
Proof. exact speaks_for_spec. Qed.
Print Assumptions C06_speaks_for_is_matchesQType.

(** Every address in the answer comes from the most specific entry for the
    finally resolved name among the entries that speak for the type: no
    canonical-name entry covers that name, the source is an exact entry as
    soon as ANY speaking exact entry exists (an "A" / "AAAA" exception of
    either family included: the seeded change C06-H), and a wildcard source
    is the longest speaking pattern. *)
Theorem C06_exact_entry_shadows_wildcards_all_kinds :
  forall sort, (forall l, Permutation (sort l) l) -> (forall l, sorted_by_compare (sort l)) ->
  forall tbl host qt r i,
    process_rewrites sort tbl host qt = Some r -> In i (r_ips r) ->
    exists final,
      (final = r_canon r \/ (r_canon r = [] /\ final = host)) /\
      exists e, In e tbl /\ matches_host e final = true /\ e_ip e = Some i /\
        rtype_code (e_type e) = qt /\ (qt = qA \/ qt = qAAAA) /\
        forall x, In x tbl -> matches_host x final = true -> speaks_for x qt ->
          is_cname x = false /\
          (is_wildcard (e_dom x) = false -> is_wildcard (e_dom e) = false) /\
          (is_wildcard (e_dom e) = true -> (length (e_dom x) <= length (e_dom e))%nat).
Proof. exact exact_entry_shadows_wildcards_all_kinds. Qed.
Print Assumptions C06_exact_entry_shadows_wildcards_all_kinds.

Theorem C06_exact_entry_shadows_wildcards_check_host :
  forall sort, (forall l, Permutation (sort l) l) -> (forall l, sorted_by_compare (sort l)) ->
  forall enabled tbl host qt r i,
    check_host sort enabled tbl host qt = Some r -> In i (r_ips r) ->
    exists final, resolved_name (to_lower host) r final /\ from_most_specific tbl final qt i.
Proof. exact check_host_exact_entry_shadows_wildcards. Qed.
Print Assumptions C06_exact_entry_shadows_wildcards_check_host.

(** The C06-H shape spelled out: an exact entry without an address that is
    no canonical name (the "A" / "AAAA" exception of either family) for the
    finally resolved name, and every answered address is the value of an
    EXACT entry for that name. *)
Theorem C06_exact_exception_shadows_wildcard_values :
  forall sort, (forall l, Permutation (sort l) l) -> (forall l, sorted_by_compare (sort l)) ->
  forall tbl host qt r i x,
    process_rewrites sort tbl host qt = Some r -> In i (r_ips r) ->
    exists final, resolved_name host r final /\
      (In x tbl -> e_dom x = final -> is_wildcard final = false ->
       is_cname x = false -> e_ip x = None ->
       exists e, In e tbl /\ e_dom e = final /\ e_ip e = Some i /\ rtype_code (e_type e) = qt).
Proof. exact exact_exception_shadows_wildcard_values. Qed.
Print Assumptions C06_exact_exception_shadows_wildcard_values.

(** A covered name for which no entry speaks for the requested type gets the
    empty rewritten answer. *)
Theorem C06_matched_nothing_speaks :
  forall sort tbl host qt,
    (exists e, In e tbl /\ matches_host e host = true) ->
    (forall e, In e tbl -> matches_host e host = true -> ~ speaks_for e qt) ->
    process_rewrites sort tbl host qt = Some rewritten_empty.
Proof. exact matched_nothing_speaks. Qed.
Print Assumptions C06_matched_nothing_speaks.

(** The table of the seeded change C06-H and its variants, by computation:
    `*.host4.example -> 1.2.3.4`, `sub.host4.example -> AAAA`. *)
Theorem C06_seeded_H_examples :
  let ask := DocExamples.ask in
  ask ShadowExamples.tblH "sub.host4.example"%string qA = DocExamples.answer "" [] /\
  ask ShadowExamples.tblH "sub.host4.example"%string qAAAA = DocExamples.upstream /\
  ask ShadowExamples.tblH "my.host4.example"%string qA = DocExamples.answer "" [DocExamples.ip1234].
Proof.
  exact (conj ShadowExamples.seeded_H_a (conj ShadowExamples.seeded_H_aaaa ShadowExamples.seeded_H_other)).
Qed.
Print Assumptions C06_seeded_H_examples.

(** * Round 4: the response side with the DNS cache ON

    [respond_c] / [run_c] (Model/RewritesCache.v): dnsproxy's cache is looked
    up and filled under the REWRITTEN question (the canonical name, lower-
    cased by msgToKey) because filterDNSRequest changes the request before
    proxy.Resolve; a hit is delivered through the same
    processFilteringAfterResponse as an upstream reply.  [upstream] is ANY
    function (a failing exchange = [None]).

    Every message of every history carries the client's question. *)
Theorem C06_cache_question_original :
  forall sort upstream enabled tbl qs c c' os,
    run_c sort upstream enabled tbl c qs = Some (c', os) ->
    map (fun o : bool * response => rp_qname (snd o)) os = map fst qs.
Proof. exact run_c_questions. Qed.
Print Assumptions C06_cache_question_original.

(** After every history from the empty cache, every cache entry is a reply
    the upstream gave to that question under a name equal up to letter
    case. *)
Theorem C06_cache_entries_are_upstream_replies :
  forall sort upstream enabled tbl qs c os,
    run_c sort upstream enabled tbl [] qs = Some (c, os) ->
    forall name qt rc ans, cache_get c name qt = Some (rc, ans) ->
      exists asked, to_lower asked = to_lower name /\ upstream asked qt = Some (rc, ans).
Proof.
  exact (fun sort upstream en tbl qs c os H =>
    run_c_sound sort upstream en tbl qs [] c os (cache_sound_nil upstream) H).
Qed.
Print Assumptions C06_cache_entries_are_upstream_replies.

(** A CNAME resolved upstream, asked after ANY history: the client's
    question, and for some spelling of the canonical name the upstream's
    RCODE and CNAME :: the upstream's records (or the SERVFAIL of a failed
    exchange), whether the reply came from the cache or not. *)
Theorem C06_cache_cname_reply :
  forall sort upstream enabled tbl qs c os,
    run_c sort upstream enabled tbl [] qs = Some (c, os) ->
  forall qname qt r c' f p,
    check_host sort enabled tbl qname qt = Some r -> r_reason r = Rewritten ->
    r_canon r <> [] -> r_ips r = [] -> covered_flag sort enabled tbl qname qt = false ->
    respond_c sort upstream enabled tbl c qname qt = Some (c', (f, p)) ->
    rp_qname p = qname /\
    exists asked', to_lower asked' = to_lower (r_canon r) /\
      match upstream asked' qt with
      | Some (rc, ans) =>
          f = false /\ rp_rcode p = rc /\ rp_answer p = RR_CNAME qname (r_canon r) :: ans
      | None => f = true /\ rp_rcode p = rcode_servfail /\ rp_answer p = []
      end.
Proof.
  exact (fun sort upstream en tbl qs c os H qname qt r c' f p =>
    respond_c_cname_reply sort upstream en tbl c qname qt r c' f p
      (run_c_sound sort upstream en tbl qs [] c os (cache_sound_nil upstream) H)).
Qed.
Print Assumptions C06_cache_cname_reply.

(** The cache is invisible: when the upstream's reply does not depend on the
    spelling of the name asked, every reply of every history from the empty
    cache is the reply of the server without a cache ([respond_e], to which
    all response theorems above apply), except that the upstream may not
    have been asked. *)
Theorem C06_cache_transparent :
  forall sort upstream,
    (forall a b qt, to_lower a = to_lower b -> upstream a qt = upstream b qt) ->
  forall enabled tbl qs c os,
    run_c sort upstream enabled tbl [] qs = Some (c, os) ->
    Forall2 (fun (q : bytes * N) (o : bool * response) =>
               exists p0, respond_e sort upstream enabled tbl (fst q) (snd q) = Some (fst o, p0) /\
                 rp_qname (snd o) = rp_qname p0 /\ rp_rcode (snd o) = rp_rcode p0 /\
                 rp_answer (snd o) = rp_answer p0 /\
                 (rp_upstream (snd o) = [] \/ rp_upstream (snd o) = rp_upstream p0)) qs os.
Proof.
  exact (fun sort upstream H en tbl qs c os R =>
    run_c_transparent sort upstream H en tbl qs [] c os (cache_sound_nil upstream) R).
Qed.
Print Assumptions C06_cache_transparent.

(** A question answered with a cacheable reply (SERVFAIL; NOERROR with a
    record and, for A / AAAA, an address record) is answered from the cache
    afterwards, in any spelling and for any client question that resolves
    to it: same RCODE, same records, no upstream exchange. *)
Theorem C06_cache_repeat_answered_from_cache :
  forall upstream c asked shown qt front c1 p,
    forward_c upstream c asked shown qt front = (c1, (false, p)) ->
    exists rc ans, rp_rcode p = rc /\ rp_answer p = front ++ ans /\
      (cacheable qt rc ans = true ->
       forall asked2 shown2 front2, to_lower asked2 = to_lower asked ->
         forward_c upstream c1 asked2 shown2 qt front2 =
         (c1, (false, {| rp_qname := shown2; rp_rcode := rc; rp_answer := front2 ++ ans;
                         rp_upstream := [] |}))).
Proof. exact forward_c_then_hit. Qed.
Print Assumptions C06_cache_repeat_answered_from_cache.

(** `b.a.test -> a.test` asked twice (the second time as B.A.Test), then
    a.test itself, then the AAAA question (NXDOMAIN, not cacheable): one
    upstream exchange for the three A questions, the client's question and
    the CNAME from the queried name in every reply. *)
Theorem C06_cache_example :
  exists c os,
    run_c isort CacheExamples.ups9 true CacheExamples.tbl []
      [(bs "b.a.test", qA); (bs "B.A.Test", qA); (bs "a.test", qA); (bs "b.a.test", qAAAA)]
    = Some (c, os) /\
    map (fun o : bool * response => rp_upstream (snd o)) os =
      [[(bs "a.test", qA)]; []; []; [(bs "a.test", qAAAA)]] /\
    map (fun o : bool * response => rp_answer (snd o)) os =
      [[RR_CNAME (bs "b.a.test") (bs "a.test"); RR_A (bs "a.test") 151587081];
       [RR_CNAME (bs "B.A.Test") (bs "a.test"); RR_A (bs "a.test") 151587081];
       [RR_A (bs "a.test") 151587081];
       [RR_CNAME (bs "b.a.test") (bs "a.test")]].
Proof.
  exact (ex_intro _ _ (ex_intro _ _ (conj CacheExamples.cname_twice_then_direct (conj eq_refl eq_refl)))).
Qed.
Print Assumptions C06_cache_example.

(** * Round 4: a canonical name that the table covers without a value
    (found on the code as it was, repaired in /repo by 2e58a5d, draft
    notes/fix-drafts/27-C06-cname-to-covered-name-asks-upstream.patch)

    Result.CanonNameRewritten as processRewrites computes it
    ([chase_covered], the loop of [chase] once more) is a function of the
    canonical name alone: the table covers it and what findRewrites returns
    for it does not start with a canonical-name entry. *)
Theorem C06_covered_flag_spec :
  forall sort enabled tbl host qt r,
    check_host sort enabled tbl host qt = Some r -> r_reason r = Rewritten -> r_canon r <> [] ->
    covered_flag sort enabled tbl host qt =
    covered_after (r_canon r) (fst (find_rewrites sort tbl (r_canon r) qt))
                              (snd (find_rewrites sort tbl (r_canon r) qt)).
Proof. exact covered_flag_spec. Qed.
Print Assumptions C06_covered_flag_spec.

(** "A name matched by the table but without a value for the requested type
    gets an empty successful answer, not the upstream's", for a name reached
    through a canonical-name entry: the table covers the canonical name (by
    no canonical-name entry) and the chase found no address of the requested
    type for it; the client gets the CNAME alone, NOERROR, and the upstream
    is NOT asked.  For any upstream, table, name, type and sort. *)
Theorem C06_cname_to_covered_name :
  forall sort, (forall l, Permutation (sort l) l) ->
  forall (upstream : bytes -> N -> N * list rr) enabled tbl qname qt r,
    check_host sort enabled tbl qname qt = Some r ->
    r_reason r = Rewritten -> r_canon r <> [] -> r_ips r = [] ->
    (exists e, In e tbl /\ matches_host e (r_canon r) = true) ->
    (forall e, In e tbl -> matches_host e (r_canon r) = true -> is_cname e = false) ->
    respond sort upstream enabled tbl qname qt =
      Some {| rp_qname := qname; rp_rcode := 0;
              rp_answer := [RR_CNAME qname (r_canon r)]; rp_upstream := [] |}.
Proof. exact cname_to_covered_name. Qed.
Print Assumptions C06_cname_to_covered_name.

Theorem C06_cname_to_covered_name_failing_upstream :
  forall sort, (forall l, Permutation (sort l) l) ->
  forall (upstream : bytes -> N -> option (N * list rr)) enabled tbl qname qt r,
    check_host sort enabled tbl qname qt = Some r ->
    r_reason r = Rewritten -> r_canon r <> [] -> r_ips r = [] ->
    (exists e, In e tbl /\ matches_host e (r_canon r) = true) ->
    (forall e, In e tbl -> matches_host e (r_canon r) = true -> is_cname e = false) ->
    respond_e sort upstream enabled tbl qname qt =
      Some (false, {| rp_qname := qname; rp_rcode := 0;
                      rp_answer := [RR_CNAME qname (r_canon r)]; rp_upstream := [] |}).
Proof. exact cname_to_covered_name_e. Qed.
Print Assumptions C06_cname_to_covered_name_failing_upstream.

(** A canonical name OUTSIDE the table is resolved upstream (the documented
    "Example: CNAME record"). *)
Theorem C06_cname_outside_table_via_upstream :
  forall sort (upstream : bytes -> N -> N * list rr) enabled tbl qname qt r,
    check_host sort enabled tbl qname qt = Some r ->
    r_reason r = Rewritten -> r_canon r <> [] -> r_ips r = [] ->
    (forall e, In e tbl -> matches_host e (r_canon r) = false) ->
    respond sort upstream enabled tbl qname qt =
      Some {| rp_qname := qname; rp_rcode := fst (upstream (r_canon r) qt);
              rp_answer := RR_CNAME qname (r_canon r) :: snd (upstream (r_canon r) qt);
              rp_upstream := [(r_canon r, qt)] |}.
Proof. exact cname_outside_table_via_upstream. Qed.
Print Assumptions C06_cname_outside_table_via_upstream.

(** By computation: AGHTechDoc "Example: CNAME+A records" (AAAA: CNAME =
    host.com) with an upstream that has an AAAA record for host.com; "pass
    AAAA only" reached through a canonical name; and the two cases that stay
    as the code has them: `*.issue4016.com -> sub.issue4016.com` (#4016: the
    canonical name is covered by that very entry) and a cycle are resolved
    upstream. *)
Theorem C06_cname_to_covered_name_examples :
  respond isort CoveredTarget.up6 true DocExamples.t4 (bs "host.com") qAAAA =
    Some {| rp_qname := bs "host.com"; rp_rcode := 0; rp_answer := []; rp_upstream := [] |} /\
  respond isort CoveredTarget.up6 true DocExamples.t4 (bs "sub.host.com") qAAAA =
    Some {| rp_qname := bs "sub.host.com"; rp_rcode := 0;
            rp_answer := [RR_CNAME (bs "sub.host.com") (bs "host.com")]; rp_upstream := [] |} /\
  respond isort CoveredTarget.up6 true
          (DocExamples.ent "alias.example" "sub.host4.example" None :: ShadowExamples.tblH)
          (bs "alias.example") qA =
    Some {| rp_qname := bs "alias.example"; rp_rcode := 0;
            rp_answer := [RR_CNAME (bs "alias.example") (bs "sub.host4.example")]; rp_upstream := [] |} /\
  respond isort CoveredTarget.up6 true [DocExamples.ent "*.issue4016.com" "sub.issue4016.com" None]
          (bs "www.issue4016.com") qA =
    Some {| rp_qname := bs "www.issue4016.com"; rp_rcode := 0;
            rp_answer := [RR_CNAME (bs "www.issue4016.com") (bs "sub.issue4016.com");
                          RR_A (bs "sub.issue4016.com") 151587081];
            rp_upstream := [(bs "sub.issue4016.com", qA)] |}.
Proof.
  exact (conj CoveredTarget.covered_target_asked_directly
        (conj CoveredTarget.covered_target_through_cname
        (conj CoveredTarget.pass_aaaa_only_through_cname CoveredTarget.issue_4016_still_upstream))).
Qed.
Print Assumptions C06_cname_to_covered_name_examples.

(** The response assembly BEFORE 2e58a5d ([CoveredTarget.respond_pre]: a
    canonical name without addresses is always resolved upstream) refutes
    the statement of C06_cname_to_covered_name: what a revert of the fix
    restores (recorded as a mutant). *)
Theorem C06_cname_to_covered_name_pre_fix_refuted :
  ~ (forall (upstream : bytes -> N -> N * list rr) tbl qname qt r,
      check_host isort true tbl qname qt = Some r ->
      r_reason r = Rewritten -> r_canon r <> [] -> r_ips r = [] ->
      (exists e, In e tbl /\ matches_host e (r_canon r) = true) ->
      (forall e, In e tbl -> matches_host e (r_canon r) = true -> is_cname e = false) ->
      CoveredTarget.respond_pre upstream true tbl qname qt =
        Some {| rp_qname := qname; rp_rcode := 0;
                rp_answer := [RR_CNAME qname (r_canon r)]; rp_upstream := [] |}).
Proof. exact CoveredTarget.covered_target_pre_refuted. Qed.
Print Assumptions C06_cname_to_covered_name_pre_fix_refuted.

(** * Round 7: a chain of canonical names is followed to its end, whatever
    its length (seeded change C06-M: `maxRewriteCNAMEs = 16`)

    [follows sort tbl qt orig host hs rws_end m_end]: from [host] the entry
    findRewrites puts first is a canonical-name entry leading to the first
    name of [hs], and so on through [hs] (no name of [hs] is the queried
    name, the pattern of its entry or the name before it), and for the last
    name findRewrites returns [rws_end], which does not start with a
    canonical-name entry.  For EVERY such chain of distinct names, of any
    length, the answer is what the entries of the LAST name give, under the
    last name as canonical name.  (The fuel of the model's chase is S (length
    table): never a bound, C06_terminates; a chain of distinct names inside
    the table is at most as long as the table.) *)
Theorem C06_chain_followed_to_its_end :
  forall sort, (forall l, Permutation (sort l) l) ->
  forall tbl qt host hs rws_end m_end,
    hs <> [] -> NoDup hs ->
    follows sort tbl qt host host hs rws_end m_end ->
    process_rewrites sort tbl host qt =
    Some (set_result {| r_reason := Rewritten; r_canon := last hs []; r_ips := [] |} rws_end qt).
Proof. exact chain_followed_to_its_end. Qed.
Print Assumptions C06_chain_followed_to_its_end.

(** By computation: chains of 17 and 64 hops ending in 1.2.3.4, queried at
    their first name; the premises of the theorem hold for the chain of 17. *)
Theorem C06_chain_examples :
  process_rewrites isort (ChainExamples.chain_table 17) (ChainExamples.hop 0) qA = ChainExamples.end_answer 17 /\
  process_rewrites isort (ChainExamples.chain_table 64) (ChainExamples.hop 0) qA = ChainExamples.end_answer 64 /\
  follows isort (ChainExamples.chain_table 17) qA (ChainExamples.hop 0) (ChainExamples.hop 0)
          (map ChainExamples.hop (seq 1 17))
          [normalize {| w_dom := ChainExamples.hop 17; w_ans := bs "1.2.3.4";
                        w_parse := Some ChainExamples.ip1234 |}] true.
Proof. exact (conj ChainExamples.chain_17 (conj ChainExamples.chain_64 ChainExamples.follows_17)). Qed.
Print Assumptions C06_chain_examples.

(** The chase with a bound on the names followed ([chase_bounded k]: `if
    cnames.Len() == k { break }` at the top of the loop, the seeded change
    C06-M with k = 16) is NOT processRewrites: the chain of k + 1 hops stops
    at hop k with no address (and the name is then resolved upstream). *)
Theorem C06_chase_bounded_refuted :
  ~ (forall tbl host qt, process_rewrites_bounded 16 tbl host qt = process_rewrites isort tbl host qt).
Proof. exact ChainExamples.bounded_refuted. Qed.
Print Assumptions C06_chase_bounded_refuted.

Theorem C06_chase_bounded_witness :
  process_rewrites_bounded 16 (ChainExamples.chain_table 17) (ChainExamples.hop 0) qA =
    Some {| r_reason := Rewritten; r_canon := ChainExamples.hop 16; r_ips := [] |} /\
  process_rewrites_bounded 16 (ChainExamples.chain_table 16) (ChainExamples.hop 0) qA = ChainExamples.end_answer 16 /\
  process_rewrites_bounded 3 (ChainExamples.chain_table 4) (ChainExamples.hop 0) qA =
    Some {| r_reason := Rewritten; r_canon := ChainExamples.hop 3; r_ips := [] |}.
Proof.
  exact (conj ChainExamples.bounded_16_stops
        (conj ChainExamples.bounded_16_agrees_up_to_16 ChainExamples.bounded_3_stops)).
Qed.
Print Assumptions C06_chase_bounded_witness.

(** * Round 8: the rewrite's CNAME is always the first record (seeded change
    C06-P: the CNAME is skipped when the upstream's answer starts with one)

    For EVERY upstream answer to the canonical name (empty, a CNAME chain of
    the upstream's own first, a CNAME only, odd orders, other types first):
    the first record of the reply is owned by the queried name and points at
    the canonical name, the rest is the upstream's answer unchanged, under
    the client's question and the upstream's RCODE. *)
Theorem C06_rewrite_cname_always_first :
  forall sort (upstream : bytes -> N -> N * list rr) enabled tbl qname qt r rc ans,
    check_host sort enabled tbl qname qt = Some r ->
    r_reason r = Rewritten -> r_canon r <> [] -> r_ips r = [] ->
    covered_flag sort enabled tbl qname qt = false ->
    upstream (r_canon r) qt = (rc, ans) ->
    exists p, respond sort upstream enabled tbl qname qt = Some p /\
      hd_error (rp_answer p) = Some (RR_CNAME qname (r_canon r)) /\
      tl (rp_answer p) = ans /\ rp_qname p = qname /\ rp_rcode p = rc.
Proof. exact rewrite_cname_always_first. Qed.
Print Assumptions C06_rewrite_cname_always_first.

(** The variant that skips the CNAME when the answer starts with a CNAME
    record ([respond_skip], the seeded change C06-P) is refuted: `www.shop.test
    -> shop.cdn.example`, upstream answer `shop.cdn.example CNAME edge.cdn.net,
    edge.cdn.net A 9.9.9.9`: no record of the reply is owned by the queried
    name. *)
Theorem C06_rewrite_cname_skipped_refuted :
  ~ (forall upstream en tbl qname qt p r,
       check_host isort en tbl qname qt = Some r -> r_reason r = Rewritten ->
       r_canon r <> [] -> r_ips r = [] -> covered_flag isort en tbl qname qt = false ->
       respond_skip upstream en tbl qname qt = Some p ->
       hd_error (rp_answer p) = Some (RR_CNAME qname (r_canon r))).
Proof. exact FirstExamples.skip_refuted. Qed.
Print Assumptions C06_rewrite_cname_skipped_refuted.

Theorem C06_rewrite_cname_first_example :
  respond isort FirstExamples.up_cdn true FirstExamples.tbl (bs "www.shop.test") qA =
    Some {| rp_qname := bs "www.shop.test"; rp_rcode := 0;
            rp_answer := [RR_CNAME (bs "www.shop.test") (bs "shop.cdn.example");
                          RR_CNAME (bs "shop.cdn.example") (bs "edge.cdn.net");
                          RR_A (bs "edge.cdn.net") 151587081];
            rp_upstream := [(bs "shop.cdn.example", qA)] |}.
Proof. exact FirstExamples.head_reply. Qed.
Print Assumptions C06_rewrite_cname_first_example.

(** C06: custom DNS rewrites follow the documented precedence and always
    terminate.  Only statements here; proofs live in Proofs/Rewrites.v.

    [sort] is ANY function returning a permutation of its argument (and,
    for the precedence theorems, one that is sorted by [Compare]): Go's
    slices.SortFunc is not stable, and nothing here depends on stability. *)
From Coq Require Import ZArith NArith List Bool Permutation Sorted.
From AGH Require Import Base.Run Model.Rewrites Proofs.Rewrites.

(** The CNAME chase never runs out of its [S (length table)] units of fuel:
    processRewrites returns for every table, name and type (cycles of any
    shape included). *)
Theorem C06_terminates :
  forall sort, (forall l, Permutation (sort l) l) ->
  forall (tbl : list entry) (host : bytes) (qt : N),
    process_rewrites sort tbl host qt <> None /\
    forall enabled, check_host sort enabled tbl host qt <> None.
Proof.
  intros sort Hs tbl host qt. split.
  - exact (process_rewrites_terminates sort Hs tbl host qt).
  - intros en. exact (check_host_terminates sort Hs en tbl host qt).
Qed.
Print Assumptions C06_terminates.

(** C16: ClientIDs come only from a well-formed DoH path or server-name label.
    Only statements here; definitions in Model/ClientID.v, proofs and the
    vocabulary ([immediate_sub], [path_id], [path_plain], [reaches_sni],
    [lookalike]) in Proofs/ClientID.v. *)
From Coq Require Import List NArith.
From AGH Require Import Base.Run Base.Bytes Base.Dom Base.PathClean Model.ClientID Proofs.ClientID.
Import ListNotations.

(** A returned non-empty ClientID: the protocol is DoH, DoT or DoQ; the id is a
    valid host-name label in lower case; and it is the lower-cased <x> of a
    cleaned path /dns-query/<x>, or of the client's server name <x>.<configured
    name> with <x> a single label (the decomposition is unique, so it cannot be
    somebody else's). *)
Theorem C16_sound : forall p host strict sni h id,
  client_id_of p host strict sni h = CidOk id -> id <> [] ->
  secure p /\ valid_label id /\ lower id = id /\
  ((p = DoH /\ exists r x, h = Some r /\ path_id (d_path r) x /\ valid_label x /\ id = lower x) \/
   (reaches_sni p h /\ host <> [] /\
    exists cli x, server_name_of p sni h = inr cli /\ immediate_sub cli host x /\
                  valid_label x /\ id = lower x)).
Proof. exact sound. Qed.
Print Assumptions C16_sound.

Theorem C16_label_unique : forall cli host x y,
  immediate_sub cli host x -> immediate_sub cli host y -> x = y.
Proof. exact immediate_sub_unique. Qed.
Print Assumptions C16_label_unique.

(** A present but invalid label is an error: never "no ClientID", never another id. *)
Theorem C16_invalid_fails : forall host strict sni r x,
  path_id (d_path r) x -> ~ valid_label x ->
  exists e, client_id_of DoH host strict sni (Some r) = CidErr (EPathLabel e).
Proof. exact invalid_path_fails. Qed.
Print Assumptions C16_invalid_fails.

Theorem C16_invalid_fails_sni : forall p host strict sni h cli x,
  reaches_sni p h -> host <> [] -> server_name_of p sni h = inr cli ->
  immediate_sub cli host x -> ~ valid_label x ->
  exists e, client_id_of p host strict sni h = CidErr (ESniLabel e).
Proof. exact invalid_sni_fails. Qed.
Print Assumptions C16_invalid_fails_sni.

(** ... and a valid one is attributed, lower-cased. *)
Theorem C16_valid_attributed : forall host strict sni r x,
  path_id (d_path r) x -> valid_label x ->
  client_id_of DoH host strict sni (Some r) = CidOk (lower x).
Proof. exact valid_path_attributed. Qed.
Print Assumptions C16_valid_attributed.

Theorem C16_valid_attributed_sni : forall p host strict sni h cli x,
  reaches_sni p h -> host <> [] -> server_name_of p sni h = inr cli ->
  immediate_sub cli host x -> valid_label x ->
  client_id_of p host strict sni h = CidOk (lower x).
Proof. exact valid_sni_attributed. Qed.
Print Assumptions C16_valid_attributed_sni.

(** Plain DNS and DNSCrypt never carry a ClientID, whatever else is in the context. *)
Theorem C16_plain_none : forall host strict sni h,
  client_id_of UDP host strict sni h = CidOk [] /\
  client_id_of TCP host strict sni h = CidOk [] /\
  client_id_of DNSCrypt host strict sni h = CidOk [].
Proof. exact plain_none. Qed.
Print Assumptions C16_plain_none.

(** Strict server-name checking rejects every name that is neither the
    configured one nor an immediate subdomain of it. *)
Theorem C16_strict : forall p host sni h cli,
  reaches_sni p h -> host <> [] -> server_name_of p sni h = inr cli ->
  cli <> host -> (forall x, ~ immediate_sub cli host x) ->
  client_id_of p host true sni h = CidErr EMismatch.
Proof. exact strict_rejects. Qed.
Print Assumptions C16_strict.

(** evil-host, xhost, x.y.host, host.evil.net never produce an id. *)
Theorem C16_lookalike : forall p host strict sni h cli id,
  reaches_sni p h -> host <> [] -> server_name_of p sni h = inr cli ->
  lookalike cli host ->
  client_id_of p host strict sni h = (if strict then CidErr EMismatch else CidOk []) /\
  (client_id_of p host strict sni h = CidOk id -> id = []).
Proof. exact lookalike_no_id. Qed.
Print Assumptions C16_lookalike.

(** Where the server name comes from for DoH: the TLS state if there is one,
    else the Host header without its port. *)
Theorem C16_tls_name_wins : forall r n,
  d_tls_sni r = Some n -> server_name_from_http r = inr n.
Proof. exact tls_name_wins. Qed.
Print Assumptions C16_tls_name_wins.

Theorem C16_host_port_stripped : forall name port,
  name <> [] -> mem colon name = false -> mem lbr name = false -> mem rbr name = false ->
  mem colon port = false -> mem lbr port = false -> mem rbr port = false ->
  split_host (name ++ colon :: port) = Some name.
Proof. exact host_port_stripped. Qed.
Print Assumptions C16_host_port_stripped.

(** Facts about the cleaned path the statements above rely on. *)
Theorem C16_clean_idempotent : forall p, clean (clean p) = clean p.
Proof. exact clean_idem. Qed.
Print Assumptions C16_clean_idempotent.

Theorem C16_valid_label_spec : forall l, validate_hostname_label l = None <-> valid_label l.
Proof. exact validate_hostname_label_spec. Qed.
Print Assumptions C16_valid_label_spec.

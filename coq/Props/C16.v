(** C16: ClientIDs come only from a well-formed DoH path or server-name label.
    Only statements here; definitions in Model/ClientID.v, proofs and the
    vocabulary ([immediate_sub], [path_id], [path_plain], [reaches_sni],
    [lookalike]) in Proofs/ClientID.v. *)
From Coq Require Import List NArith Sorting.Permutation.
From AGH Require Import Base.Run Base.Bytes Base.Dom Base.PathClean Model.ClientID Proofs.ClientID.
From AGH Require Import Model.CertNames Proofs.CertNames.
From AGH Require Import Model.ClientIDCache Proofs.ClientIDCache Model.ClientIDReconf Proofs.ClientIDReconf.
From AGH Require Import Model.TLSSettings Proofs.TLSSettings.
From AGH Require Import Model.GoLower Proofs.GoLower Model.CertPrepare Proofs.CertPrepare.
From AGH Require Import Model.TLSGlue Proofs.TLSGlue Model.DoHTarget Proofs.DoHTarget.
From AGH Require Import Model.ClientIDKey Proofs.ClientIDKey.
Import ListNotations.

(** A returned non-empty ClientID: the protocol is DoH, DoT or DoQ; the id is a
    valid host-name label in lower case; and it is the lower-cased <x> of a
    cleaned path /dns-query/<x>, or of the client's server name <x>.<configured
    name> with <x> a single label (the decomposition is unique, so it cannot be
    somebody else's). *)
Theorem C16_sound : forall p host strict sni h id,
  client_id_of p host strict sni h = CidOk id -> id <> [] ->
  secure p /\ valid_label id /\ lower id = id /\
  ((p = DoH /\ exists r x, h = Some r /\ path_id (d_path r) x /\ valid_label x /\ id = lower x) \/
   (reaches_sni p h /\ host <> [] /\
    exists cli x, server_name_of p sni h = inr cli /\ immediate_sub cli host x /\
                  valid_label x /\ id = lower x)).
Proof. exact sound. Qed.
Print Assumptions C16_sound.

Theorem C16_label_unique : forall cli host x y,
  immediate_sub cli host x -> immediate_sub cli host y -> x = y.
Proof. exact immediate_sub_unique. Qed.
Print Assumptions C16_label_unique.

(** A present but invalid label is an error: never "no ClientID", never another id. *)
Theorem C16_invalid_fails : forall host strict sni r x,
  path_id (d_path r) x -> ~ valid_label x ->
  exists e, client_id_of DoH host strict sni (Some r) = CidErr (EPathLabel e).
Proof. exact invalid_path_fails. Qed.
Print Assumptions C16_invalid_fails.

Theorem C16_invalid_fails_sni : forall p host strict sni h cli x,
  reaches_sni p h -> host <> [] -> server_name_of p sni h = inr cli ->
  immediate_sub cli host x -> ~ valid_label x ->
  exists e, client_id_of p host strict sni h = CidErr (ESniLabel e).
Proof. exact invalid_sni_fails. Qed.
Print Assumptions C16_invalid_fails_sni.

(** ... and a valid one is attributed, lower-cased. *)
Theorem C16_valid_attributed : forall host strict sni r x,
  path_id (d_path r) x -> valid_label x ->
  client_id_of DoH host strict sni (Some r) = CidOk (lower x).
Proof. exact valid_path_attributed. Qed.
Print Assumptions C16_valid_attributed.

Theorem C16_valid_attributed_sni : forall p host strict sni h cli x,
  reaches_sni p h -> host <> [] -> server_name_of p sni h = inr cli ->
  immediate_sub cli host x -> valid_label x ->
  client_id_of p host strict sni h = CidOk (lower x).
Proof. exact valid_sni_attributed. Qed.
Print Assumptions C16_valid_attributed_sni.

(** Plain DNS and DNSCrypt never carry a ClientID, whatever else is in the context. *)
Theorem C16_plain_none : forall host strict sni h,
  client_id_of UDP host strict sni h = CidOk [] /\
  client_id_of TCP host strict sni h = CidOk [] /\
  client_id_of DNSCrypt host strict sni h = CidOk [].
Proof. exact plain_none. Qed.
Print Assumptions C16_plain_none.

(** Strict server-name checking rejects every name that is neither the
    configured one nor an immediate subdomain of it. *)
Theorem C16_strict : forall p host sni h cli,
  reaches_sni p h -> host <> [] -> server_name_of p sni h = inr cli ->
  cli <> host -> (forall x, ~ immediate_sub cli host x) ->
  client_id_of p host true sni h = CidErr EMismatch.
Proof. exact strict_rejects. Qed.
Print Assumptions C16_strict.

(** evil-host, xhost, x.y.host, host.evil.net never produce an id. *)
Theorem C16_lookalike : forall p host strict sni h cli id,
  reaches_sni p h -> host <> [] -> server_name_of p sni h = inr cli ->
  lookalike cli host ->
  client_id_of p host strict sni h = (if strict then CidErr EMismatch else CidOk []) /\
  (client_id_of p host strict sni h = CidOk id -> id = []).
Proof. exact lookalike_no_id. Qed.
Print Assumptions C16_lookalike.

(** Where the server name comes from for DoH: the TLS state if there is one,
    else the Host header without its port. *)
Theorem C16_tls_name_wins : forall r n,
  d_tls_sni r = Some n -> server_name_from_http r = inr n.
Proof. exact tls_name_wins. Qed.
Print Assumptions C16_tls_name_wins.

Theorem C16_host_port_stripped : forall name port,
  name <> [] -> mem colon name = false -> mem lbr name = false -> mem rbr name = false ->
  mem colon port = false -> mem lbr port = false -> mem rbr port = false ->
  split_host (name ++ colon :: port) = Some name.
Proof. exact host_port_stripped. Qed.
Print Assumptions C16_host_port_stripped.

(** [C16_sound] with the origin of the client's server name spelled out
    ([name_source]): for DoH it is the TLS state's ServerName whenever the
    request has a TLS state (also an empty one), and the Host header without
    its port only when it has none; for DoT/DoQ the connection's ServerName. *)
Theorem C16_sound_source : forall p host strict sni h id,
  client_id_of p host strict sni h = CidOk id -> id <> [] ->
  secure p /\ valid_label id /\ lower id = id /\
  ((p = DoH /\ exists r x, h = Some r /\ path_id (d_path r) x /\ valid_label x /\ id = lower x) \/
   (reaches_sni p h /\ host <> [] /\
    exists cli x, name_source p sni h cli /\ immediate_sub cli host x /\
                  valid_label x /\ id = lower x)).
Proof. exact sound_source. Qed.
Print Assumptions C16_sound_source.

Theorem C16_name_source : forall p sni h cli,
  server_name_of p sni h = inr cli <-> name_source p sni h cli.
Proof. exact server_name_source. Qed.
Print Assumptions C16_name_source.

(** A request with a TLS state: the Host header has no influence on the
    outcome, whatever the protocol, path, TLS server name (also empty), strict. *)
Theorem C16_tls_ignores_host : forall p host strict sni path n host1 host2,
  client_id_of p host strict sni (Some (doh_tls path n host1)) =
  client_id_of p host strict sni (Some (doh_tls path n host2)).
Proof. exact tls_ignores_host. Qed.
Print Assumptions C16_tls_ignores_host.

(** ... and an id it yields is the path id or the label before the configured
    name in the TLS server name. *)
Theorem C16_sound_doh_tls : forall host strict sni path n hh id,
  client_id_of DoH host strict sni (Some (doh_tls path n hh)) = CidOk id -> id <> [] ->
  (exists x, path_id path x /\ valid_label x /\ id = lower x) \/
  (path_plain path /\ host <> [] /\
   exists x, immediate_sub n host x /\ valid_label x /\ id = lower x).
Proof. exact sound_doh_tls. Qed.
Print Assumptions C16_sound_doh_tls.

(** DoH over TLS without SNI: the exact outcome.  No fallback to the Host
    header: without an id in the path the empty name is checked (strict: error
    unless no name is configured; otherwise no id); with /dns-query/<x> the path
    decides; a non-empty id can only be the path's. *)
Theorem C16_doh_tls_empty_sni : forall host strict sni path hh,
  (path_plain path ->
   client_id_of DoH host strict sni (Some (doh_tls path [] hh)) =
     match host with
     | [] => CidOk []
     | _ :: _ => if strict then CidErr EMismatch else CidOk []
     end) /\
  (forall x, path_id path x ->
   client_id_of DoH host strict sni (Some (doh_tls path [] hh)) =
     match validate_hostname_label x with
     | Some e => CidErr (EPathLabel e)
     | None => CidOk (lower x)
     end) /\
  (forall id, client_id_of DoH host strict sni (Some (doh_tls path [] hh)) = CidOk id -> id <> [] ->
   exists x, path_id path x /\ valid_label x /\ id = lower x).
Proof. exact doh_tls_empty_sni. Qed.
Print Assumptions C16_doh_tls_empty_sni.

(** Plain-HTTP DoH (no TLS state): the exact outcome in terms of the Host header. *)
Theorem C16_doh_plain_host : forall host strict sni path hh,
  path_plain path -> host <> [] ->
  client_id_of DoH host strict sni (Some (doh_plain path hh)) =
    match hh with
    | [] => if strict then CidErr EMismatch else CidOk []
    | _ :: _ =>
        match split_host hh with
        | Some name => from_server_name host name strict
        | None => CidErr EHostParse
        end
    end.
Proof. exact doh_plain_host. Qed.
Print Assumptions C16_doh_plain_host.

Theorem C16_host_bracket_stripped : forall a port,
  mem lbr a = false -> mem rbr a = false ->
  mem colon port = false -> mem lbr port = false -> mem rbr port = false ->
  split_host (lbr :: a ++ rbr :: colon :: port) = Some a.
Proof. exact split_host_bracket. Qed.
Print Assumptions C16_host_bracket_stripped.

Theorem C16_host_two_colons_rejected : forall a b c,
  a <> [] -> mem lbr a = false -> mem colon c = false ->
  split_host (a ++ colon :: b ++ colon :: c) = None.
Proof. exact split_host_two_colons. Qed.
Print Assumptions C16_host_two_colons_rejected.

Theorem C16_from_host_only_without_tls : forall r,
  name_from_host r = true -> d_tls_sni r = None.
Proof. exact from_host_only_without_tls. Qed.
Print Assumptions C16_from_host_only_without_tls.

(** Facts about the cleaned path the statements above rely on. *)
Theorem C16_clean_idempotent : forall p, clean (clean p) = clean p.
Proof. exact clean_idem. Qed.
Print Assumptions C16_clean_idempotent.

Theorem C16_valid_label_spec : forall l, validate_hostname_label l = None <-> valid_label l.
Proof. exact validate_hostname_label_spec. Qed.
Print Assumptions C16_valid_label_spec.

(** * The strict server-name check of the TLS handshake (Model/CertNames.v):
    Server.prepareTLS collects the names of the certificate, and
    Server.onGetCertificate refuses a Client Hello whose server name
    anyNameMatches does not find among them.  Vocabulary in Proofs/CertNames.v:
    [cert_names] (SAN DNS names, else the CommonName), [cert_covers],
    [wild_covers], [rfc6125_covers], [sorted]. *)

(** matchesDomainWildcard(host, pat): pat is *.<d> and host is <x>.<d>; the dot
    is part of the suffix ([x] may be empty and may contain dots). *)
Theorem C16_wildcard_match : forall host pat,
  matches_domain_wildcard host pat = true <->
  exists d x, pat = star :: dot :: d /\ host = x ++ dot :: d.
Proof. exact matches_domain_wildcard_spec. Qed.
Print Assumptions C16_wildcard_match.

(** slices.BinarySearch, as written, on a sorted slice: membership. *)
Theorem C16_binary_search_sorted : forall names t,
  sorted names -> (binary_search names t = true <-> In t names).
Proof. exact binary_search_sorted. Qed.
Print Assumptions C16_binary_search_sorted.

(** prepareTLS hands a sorted list with the same elements to the search; any
    correct sort yields this very list. *)
Theorem C16_names_sorted : forall c,
  sorted (collect_names c) /\ (forall n, In n (collect_names c) <-> In n (cert_names c)).
Proof. exact (fun c => conj (collect_names_sorted c) (fun n => In_collect_names n c)). Qed.
Print Assumptions C16_names_sorted.

Theorem C16_sort_unique : forall l s, sorted s -> Permutation l s -> s = sort_names l.
Proof. exact sort_names_unique. Qed.
Print Assumptions C16_sort_unique.

(** With strict checking on, a handshake server name is accepted iff it is a
    host name or IP literal AND is equal (byte-wise) to a name of the
    certificate or is <x>.<d> for a wildcard name *.<d> of the certificate with
    <x> non-empty.  <x> is NOT restricted to one label. *)
Theorem C16_strict_cert_names : forall c sni v6,
  handshake_accepts true c sni v6 = true <->
  sni_wellformed sni v6 = true /\
  (In sni (cert_names c) \/
   exists d x, x <> [] /\ In (star :: dot :: d) (cert_names c) /\ sni = x ++ dot :: d).
Proof. exact strict_cert_names. Qed.
Print Assumptions C16_strict_cert_names.

(** The one-label reading of a wildcard name (RFC 6125) is not what the code
    does: *.example.org admits a.b.example.org. *)
Theorem C16_strict_cert_wildcard_depth_refuted :
  exists c sni v6,
    handshake_accepts true c sni v6 = true /\
    ~ (In sni (cert_names c) \/
       exists d x, In (star :: dot :: d) (cert_names c) /\ x <> [] /\ mem dot x = false /\
                   sni = x ++ dot :: d).
Proof. exact strict_cert_wildcard_depth_refuted. Qed.
Print Assumptions C16_strict_cert_wildcard_depth_refuted.

(** ... everything the one-label reading admits is admitted. *)
Theorem C16_strict_cert_one_label_accepted : forall c sni v6,
  sni_wellformed sni v6 = true -> rfc6125_covers (cert_names c) sni ->
  handshake_accepts true c sni v6 = true.
Proof. exact rfc6125_covers_accepted. Qed.
Print Assumptions C16_strict_cert_one_label_accepted.

(** Look-alikes: <x><d> without a dot between them (evilexample.org,
    my-example.org, alice.evilexample.org for *.example.org) is not matched by
    *.<d>; if the handshake is accepted all the same, another name of the
    certificate is equal to it or covers it. *)
Theorem C16_strict_cert_lookalike : forall c d x v6,
  x <> [] -> last x 0%N <> dot ->
  matches_domain_wildcard (x ++ d) (star :: dot :: d) = false /\
  (handshake_accepts true c (x ++ d) v6 = true ->
   exists n, In n (cert_names c) /\ n <> star :: dot :: d /\
             (n = x ++ d \/ wild_covers n (x ++ d))).
Proof. exact strict_cert_lookalike. Qed.
Print Assumptions C16_strict_cert_lookalike.

Theorem C16_strict_single_wildcard_lookalike : forall d cn x v6,
  x <> [] -> last x 0%N <> dot ->
  handshake_accepts true {| c_dns_names := [star :: dot :: d]; c_common_name := cn |} (x ++ d) v6 = false.
Proof. exact strict_single_wildcard_lookalike. Qed.
Print Assumptions C16_strict_single_wildcard_lookalike.

(** The bare domain is outside its own wildcard. *)
Theorem C16_strict_single_wildcard_bare : forall d cn v6,
  handshake_accepts true {| c_dns_names := [star :: dot :: d]; c_common_name := cn |} d v6 = false.
Proof. exact strict_single_wildcard_bare. Qed.
Print Assumptions C16_strict_single_wildcard_bare.

(** Strict off: every server name is accepted.  Strict on: no SNI, or one that
    is neither a host name nor an IP literal, is refused. *)
Theorem C16_strict_off_accepts : forall c sni v6, handshake_accepts false c sni v6 = true.
Proof. exact strict_off_accepts. Qed.
Print Assumptions C16_strict_off_accepts.

Theorem C16_strict_empty_sni_rejected : forall c v6, handshake_accepts true c [] v6 = false.
Proof. exact strict_empty_sni_rejected. Qed.
Print Assumptions C16_strict_empty_sni_rejected.

Theorem C16_strict_malformed_rejected : forall c sni v6,
  sni_wellformed sni v6 = false -> handshake_accepts true c sni v6 = false.
Proof. exact strict_malformed_rejected. Qed.
Print Assumptions C16_strict_malformed_rejected.

(** A certificate without SAN DNS names: the CommonName alone decides; with
    them it is not looked at; the order of the names is irrelevant. *)
Theorem C16_strict_no_dns_names : forall c sni v6,
  c_dns_names c = [] ->
  (handshake_accepts true c sni v6 = true <->
   sni_wellformed sni v6 = true /\
   (sni = c_common_name c \/
    exists d x, x <> [] /\ c_common_name c = star :: dot :: d /\ sni = x ++ dot :: d)).
Proof. exact strict_no_dns_names. Qed.
Print Assumptions C16_strict_no_dns_names.

Theorem C16_strict_cn_ignored : forall c cn' sni v6,
  c_dns_names c <> [] ->
  handshake_accepts true c sni v6 =
  handshake_accepts true {| c_dns_names := c_dns_names c; c_common_name := cn' |} sni v6.
Proof. exact strict_cn_ignored. Qed.
Print Assumptions C16_strict_cn_ignored.

Theorem C16_strict_order_irrelevant : forall c1 c2 sni v6,
  Permutation (c_dns_names c1) (c_dns_names c2) -> c_common_name c1 = c_common_name c2 ->
  handshake_accepts true c1 sni v6 = handshake_accepts true c2 sni v6.
Proof. exact strict_order_irrelevant. Qed.
Print Assumptions C16_strict_order_irrelevant.

(** The two strict checks together: a ClientID read from the server name under
    strict checking, on a connection whose handshake passed the strict check:
    the name is <label>.<configured name> AND covered by the certificate. *)
Theorem C16_strict_both : forall p host sni h c v6 cli id,
  client_id_of p host true sni h = CidOk id -> id <> [] ->
  server_name_of p sni h = inr cli ->
  handshake_accepts true c cli v6 = true ->
  cert_covers c cli /\
  ((p = DoH /\ exists r x, h = Some r /\ path_id (d_path r) x /\ valid_label x /\ id = lower x) \/
   (host <> [] /\ exists x, immediate_sub cli host x /\ valid_label x /\ id = lower x)).
Proof. exact strict_both. Qed.
Print Assumptions C16_strict_both.

(** * Round 4: the ClientID on its way to the request's processing, across
    reconfigurations of the server (Model/ClientIDReconf.v).

    A history is any list of: a request context is created and the hook runs
    ([OArrive]); the handler of an existing context runs processInitial
    ([OProcess]); Prepare installs new TLS settings and a new proxy, whose
    request counter starts again ([OReconf]).  [history A q mid]: anything,
    then request [q] arrives, then [mid], then [q] is processed. *)

(** Plain DNS and DNSCrypt requests are never processed with a ClientID:
    whatever was served before, under whatever settings, through any number of
    reconfigurations ([A]), and whatever is served between the request's hook
    and its processing, short of a reconfiguration. *)
Theorem C16_reconf_plain_never_id : forall cf host0 strict0 A q mid,
  plain (q_proto q) -> no_reconf mid ->
  last_obs true cf (srv_init host0 strict0) (history A q mid) =
  if q_early q then BEarly else BProcess [].
Proof. exact plain_never_id. Qed.
Print Assumptions C16_reconf_plain_never_id.

(** No request inherits: one whose own hook extracted nothing is processed
    with nothing (no bound on what lies in between). *)
Theorem C16_reconf_no_inherit : forall cf host0 strict0 A q mid,
  let stA := state_of true cf (srv_init host0 strict0) A in
  hook_value (hook_of stA q) = [] -> no_reconf mid ->
  last_obs true cf (srv_init host0 strict0) (history A q mid) = expected stA q.
Proof. exact no_inherit_same_epoch. Qed.
Print Assumptions C16_reconf_no_inherit.

(** Every request is processed with exactly what its own hook extracted under
    the settings in force when it arrived (or is refused there, or returns
    before the ClientID is read), with fewer than 1024 steps in between. *)
Theorem C16_reconf_handover_exact : forall host0 strict0 A q mid,
  let stA := state_of true server_cache_conf (srv_init host0 strict0) A in
  no_reconf mid -> (length mid < 1024)%nat ->
  last_obs true server_cache_conf (srv_init host0 strict0) (history A q mid) = expected stA q.
Proof. exact handover_server. Qed.
Print Assumptions C16_reconf_handover_exact.

(** For every history without any premise: a non-empty ClientID that a request
    is processed with was extracted by the hook from some request of this
    server (and is therefore a well-formed path or server-name label, by
    C16_sound). *)
Theorem C16_reconf_id_extracted : forall cl cf host0 strict0 ops i id,
  let st := state_of cl cf (srv_init host0 strict0) ops in
  snd (process st i) = BProcess id -> id <> [] ->
  exists p, In p (s_reqs st) /\ p_res p = CidOk id.
Proof. exact processed_id_extracted. Qed.
Print Assumptions C16_reconf_id_extracted.

(** The tree before "dnsforward: forget saved ClientIDs when a new proxy is
    installed": Prepare left the cache as it was, and the first plain request
    of the new proxy was processed as the first DoT client of the old one. *)
Theorem C16_reconf_stale_id_refuted :
  exists A q mid,
    plain (q_proto q) /\ no_reconf mid /\
    last_obs false server_cache_conf (srv_init b_host false) (history A q mid) = BProcess b_alice.
Proof. exact stale_id_without_clear_refuted. Qed.
Print Assumptions C16_reconf_stale_id_refuted.

(** [no_reconf mid] is needed: a context of the old proxy still in flight
    while Prepare runs is processed under a RequestID that the new proxy gives
    out again (reported to the lead; not driven by the harness). *)
Theorem C16_reconf_inflight_witness :
  last_obs true server_cache_conf (srv_init b_host false)
    [OArrive q_udp; OReconf b_host false; OArrive q_dot_alice; OProcess 0%nat]
  = BProcess b_alice.
Proof. exact inflight_across_reconf_witness. Qed.
Print Assumptions C16_reconf_inflight_witness.

(** * Round 4: the strict flag through POST /control/tls/configure
    (Model/TLSSettings.v). *)

(** Whatever a request says and however the call ends, the fields that are
    not accepted from the frontend stay: strict_sni_check, the cipher
    override, allow_unencrypted_doh, the DNSCrypt file and port. *)
Theorem C16_tls_configure_keeps_private : forall m rs,
  private_of (m_conf (run_configure true m rs)) = private_of (m_conf m).
Proof. exact configure_run_keeps_private. Qed.
Print Assumptions C16_tls_configure_keeps_private.

(** ... so the DNS server is told to check strictly exactly when encryption
    is on and the configuration file says so, after any number of calls. *)
Theorem C16_tls_strict_handed_over : forall m rs,
  option_map snd (dns_tls (m_conf (run_configure true m rs))) =
  if t_enabled (m_conf (run_configure true m rs)) then Some (t_strict (m_conf m)) else None.
Proof. exact strict_handed_over. Qed.
Print Assumptions C16_tls_strict_handed_over.

Theorem C16_tls_configure_takes_public : forall ks m r,
  sets (outcome_of ks m r) = true ->
  public_of (m_conf (configure_mgr ks m r)) =
  public_of (with_saved_key m r).
Proof. exact configure_takes_public. Qed.
Print Assumptions C16_tls_configure_takes_public.

Theorem C16_tls_configure_rejected_unchanged : forall ks m r,
  sets (outcome_of ks m r) = false -> configure_mgr ks m r = m /\ changed_of ks m r = false.
Proof. exact configure_rejected_unchanged. Qed.
Print Assumptions C16_tls_configure_rejected_unchanged.

(** Saving the settings in force changes nothing and is not reported as a
    change (no rewrite of the configuration file, no web server restart). *)
Theorem C16_tls_resend_noop : forall m avail pair_ok,
  m_conf (configure_mgr true m (resend m avail pair_ok)) = m_conf m /\
  changed_of true m (resend m avail pair_ok) = false.
Proof. exact resend_is_noop. Qed.
Print Assumptions C16_tls_resend_noop.

(** The tree before "home: keep strict_sni_check when the TLS settings are
    saved": one save of the settings in force and the DNS server is told not to
    check. *)
Theorem C16_tls_strict_lost_refuted :
  exists m r,
    t_strict (m_conf m) = true /\ sets (outcome_of false m r) = true /\
    r = resend m true true /\
    t_strict (m_conf (configure_mgr false m r)) = false /\
    option_map snd (dns_tls (m_conf (configure_mgr false m r))) = Some false /\
    changed_of false m r = true.
Proof. exact strict_lost_without_keep_refuted. Qed.
Print Assumptions C16_tls_strict_lost_refuted.

(** * Round 5: the label is validated as the client sent it; Go's
    strings.ToLower is Unicode aware (Model/GoLower.v). *)

(** A returned ClientID is the lower-casing of a label that was a valid
    host-name label, pure ASCII, in the bytes the client sent (path element or
    label in front of the configured name) -- for every byte string. *)
Theorem C16_label_valid_as_sent : forall p host strict sni h id,
  client_id_of p host strict sni h = CidOk id -> id <> [] ->
  exists x, valid_label x /\ is_ascii x = true /\ id = go_to_lower x /\ id = lower x /\
    ((p = DoH /\ exists r, h = Some r /\ path_id (d_path r) x) \/
     (reaches_sni p h /\ host <> [] /\
      exists cli, server_name_of p sni h = inr cli /\ immediate_sub cli host x)).
Proof. exact label_valid_as_sent. Qed.
Print Assumptions C16_label_valid_as_sent.

(** unicode.ToLower over the whole case table: outside ASCII only U+212A
    (Kelvin sign) and U+0130 have an ASCII lower case. *)
Theorem C16_to_lower_ascii_image : forall r,
  (rune_lower r < 128)%N -> (r < 128)%N \/ r = kelvin_sign \/ r = dotted_capital_i.
Proof. exact rune_lower_ascii_image. Qed.
Print Assumptions C16_to_lower_ascii_image.

Theorem C16_to_lower_on_valid : forall l, valid_label l -> go_to_lower l = lower l.
Proof. exact go_to_lower_valid. Qed.
Print Assumptions C16_to_lower_on_valid.

(** What validating AFTER lower-casing would accept: the labels valid as
    sent, and labels that contain one of the two runes; nothing else (invalid
    UTF-8 becomes U+FFFD, other letters stay outside ASCII). *)
Theorem C16_lower_first_valid_inv : forall s,
  valid_label (go_to_lower s) -> valid_label s \/ has_special s = true.
Proof. exact lower_first_valid_inv. Qed.
Print Assumptions C16_lower_first_valid_inv.

Theorem C16_lower_first_exact : forall s,
  has_special s = false -> (valid_label (go_to_lower s) <-> valid_label s).
Proof. exact lower_first_exact. Qed.
Print Assumptions C16_lower_first_exact.

Theorem C16_lower_first_agrees : forall host cli strict,
  (forall x, immediate_sub cli host x -> has_special x = false) ->
  ok_id (from_server_name_lower_first host cli strict) = ok_id (from_server_name host cli strict).
Proof. exact lower_first_agrees. Qed.
Print Assumptions C16_lower_first_agrees.

(** The order matters: "<U+212A>ate.<name>" fails in the code's order and is
    the ClientID "kate" in the other one (server name and path alike). *)
Theorem C16_lower_first_refuted :
  immediate_sub ex_kelvin_cli ex_host kelvin_ate /\ ~ valid_label kelvin_ate /\
  from_server_name ex_host ex_kelvin_cli false = CidErr (ESniLabel LBadRune) /\
  client_id_of DoT ex_host false (Some ex_kelvin_cli) None = CidErr (ESniLabel LBadRune) /\
  from_server_name_lower_first ex_host ex_kelvin_cli false = CidOk kate /\
  from_doh_path (slash :: dns_query ++ slash :: kelvin_ate) = CidErr (EPathLabel LBadRune) /\
  from_doh_path_lower_first (slash :: dns_query ++ slash :: kelvin_ate) = CidOk kate.
Proof. exact lower_first_refuted. Qed.
Print Assumptions C16_lower_first_refuted.

(** * Round 5: the strict check across reconfigurations with different
    certificates (Model/CertPrepare.v). *)

(** After any sequence of Prepare calls on one Server, from any state: the
    name list is the one of the certificate of the last call. *)
Theorem C16_strict_names_follow_current_cert : forall st pre c,
  serves_tls c -> tc_strict c = true ->
  ts_dns_names (run_prepares false st (pre ++ [c])) = collect_names (tc_cert c).
Proof. exact names_follow_current_cert. Qed.
Print Assumptions C16_strict_names_follow_current_cert.

Theorem C16_reconf_handshake_current_cert : forall st pre c sni v6,
  serves_tls c ->
  let st' := run_prepares false st (pre ++ [c]) in
  ts_installed st' = true /\
  on_get_certificate st' sni v6 = handshake_accepts (tc_strict c) (tc_cert c) sni v6.
Proof. exact handshake_follows_current_cert. Qed.
Print Assumptions C16_reconf_handshake_current_cert.

Theorem C16_reconf_accepted_covered : forall st pre c sni v6,
  serves_tls c -> tc_strict c = true ->
  (on_get_certificate (run_prepares false st (pre ++ [c])) sni v6 = true <->
   sni_wellformed sni v6 = true /\ cert_covers (tc_cert c) sni).
Proof. exact accepted_covered_by_current_cert. Qed.
Print Assumptions C16_reconf_accepted_covered.

(** A name that only an earlier certificate covers is refused. *)
Theorem C16_reconf_earlier_cert_name_rejected : forall st pre c sni v6,
  serves_tls c -> tc_strict c = true -> ~ cert_covers (tc_cert c) sni ->
  on_get_certificate (run_prepares false st (pre ++ [c])) sni v6 = false.
Proof. exact earlier_cert_name_rejected. Qed.
Print Assumptions C16_reconf_earlier_cert_name_rejected.

Theorem C16_reconf_not_serving_not_installed : forall st pre c,
  ~ serves_tls c -> ts_installed (run_prepares false st (pre ++ [c])) = false.
Proof. exact not_serving_not_installed. Qed.
Print Assumptions C16_reconf_not_serving_not_installed.

(** s.dnsNames = append(s.dnsNames, cert.DNSNames...): the names of the
    previous certificate still pass after the change. *)
Theorem C16_strict_names_appending_refuted :
  exists c1 c2 sni,
    serves_tls c2 /\ tc_strict c2 = true /\ ~ cert_covers (tc_cert c2) sni /\
    on_get_certificate (run_prepares true tls_state0 [c1; c2]) sni false = true.
Proof. exact appending_refuted. Qed.
Print Assumptions C16_strict_names_appending_refuted.

(** * Round 6 (K): the configuration space of the TLS section.  newDNSTLSConfig
    in full (Model/TLSGlue.v), composed with Prepare and the handshake. *)

(** The strict flag and the name the DNS server is handed are those of the
    settings, for every settings value: no premise on server_name. *)
Theorem C16_glue_strict_handed_over : forall s po a d,
  new_dns_tls_config false s po a = Some d -> t_enabled s = true ->
  dt_strict d = t_strict s /\ dt_server_name d = t_server_name s /\ dt_has_cert d = true.
Proof. exact glue_hands_over. Qed.
Print Assumptions C16_glue_strict_handed_over.

Theorem C16_glue_refines_dns_tls : forall s a,
  option_map (fun d => (dt_server_name d, dt_strict d)) (new_dns_tls_config false s true a) =
  Some (match dns_tls s with Some x => x | None => ([], false) end).
Proof. exact glue_refines_dns_tls. Qed.
Print Assumptions C16_glue_refines_dns_tls.

(** For every configuration that serves DoT / DoQ, after any earlier
    configurations of the same server: strict_sni_check on => a handshake is
    accepted iff its server name is well-formed and covered by the
    certificate.  server_name does not occur. *)
Theorem C16_strict_independent_of_server_name : forall st pre s po a c ip sni v6,
  serves s po a -> t_strict s = true ->
  exists d, new_dns_tls_config false s po a = Some d /\
    let st' := run_prepares false st (pre ++ [to_tls_conf d c ip]) in
    ts_installed st' = true /\
    (on_get_certificate st' sni v6 = true <-> sni_wellformed sni v6 = true /\ cert_covers c sni).
Proof. exact strict_independent_of_server_name. Qed.
Print Assumptions C16_strict_independent_of_server_name.

Theorem C16_lenient_configuration_accepts : forall st pre s po a c ip sni v6,
  serves s po a -> t_strict s = false ->
  exists d, new_dns_tls_config false s po a = Some d /\
    on_get_certificate (run_prepares false st (pre ++ [to_tls_conf d c ip])) sni v6 = true.
Proof. exact lenient_accepts. Qed.
Print Assumptions C16_lenient_configuration_accepts.

(** Two configurations that differ in server_name only treat every handshake
    alike (also when the glue fails: then both do). *)
Theorem C16_handshake_ignores_server_name : forall st s n po a c ip sni v6,
  option_map (fun st' => on_get_certificate st' sni v6) (serve_settings false st (with_name s n) po a c ip) =
  option_map (fun st' => on_get_certificate st' sni v6) (serve_settings false st s po a c ip).
Proof. exact handshake_ignores_server_name. Qed.
Print Assumptions C16_handshake_ignores_server_name.

(** StrictSNICheck: conf.StrictSNICheck && conf.ServerName != "": the same
    function whenever a name is configured ... *)
Theorem C16_glue_guarded_agrees_with_name : forall s po a,
  t_server_name s <> [] -> new_dns_tls_config true s po a = new_dns_tls_config false s po a.
Proof. exact guarded_agrees_with_name. Qed.
Print Assumptions C16_glue_guarded_agrees_with_name.

(** ... and with strict_sni_check on and no server_name a name outside the
    certificate is let in. *)
Theorem C16_glue_guarded_refuted :
  exists s c sni,
    serves s true true /\ t_strict s = true /\ ~ cert_covers c sni /\
    option_map dt_strict (new_dns_tls_config true s true true) = Some false /\
    option_map (fun st => on_get_certificate st sni false)
      (serve_settings true tls_state0 s true true c false) = Some true /\
    option_map (fun st => on_get_certificate st sni false)
      (serve_settings false tls_state0 s true true c false) = Some false.
Proof. exact guarded_refuted. Qed.
Print Assumptions C16_glue_guarded_refuted.

(** * Round 6 (L): the percent-encoding layers of the DoH request target
    (Model/DoHTarget.v): net/http decodes once, the code not at all. *)

(** A ClientID of the path is the lower-casing of an element of the request
    target decoded ONCE that is a valid label as it stands (no percent sign
    left in it). *)
Theorem C16_path_id_decoded_once : forall t D id,
  parse_target t = TPath D -> from_doh_path D = CidOk id -> id <> [] ->
  unescape (cut_query t) = Some D /\
  exists x, path_id D x /\ valid_label x /\ mem percent x = false /\ id = lower x.
Proof. exact path_id_decoded_once. Qed.
Print Assumptions C16_path_id_decoded_once.

Theorem C16_target_label_valid_as_sent : forall host strict t tls hh D id,
  doh_of_target host strict t tls hh = Some (D, CidOk id) -> id <> [] ->
  let r := {| d_path := D; d_tls_sni := tls; d_host_hdr := hh |} in
  parse_target t = TPath D /\
  exists x, valid_label x /\ mem percent x = false /\ id = lower x /\
    (path_id D x \/
     (path_plain D /\ host <> [] /\
      exists cli, server_name_from_http r = inr cli /\ immediate_sub cli host x)).
Proof. exact target_label_valid_as_sent. Qed.
Print Assumptions C16_target_label_valid_as_sent.

(** GET /dns-query/<segment>: the segment decoded once is the ClientID
    (lower-cased) iff it is a valid label; one plain element that is not a
    valid label fails the request. *)
Theorem C16_target_segment_exact : forall seg d,
  existsb bad_target_byte seg = false -> mem qmark seg = false ->
  unescape seg = Some d ->
  parse_target (dq_path seg) = TPath (dq_path d) /\
  (valid_label d -> from_doh_path (dq_path d) = CidOk (lower d)) /\
  (real d -> ~ valid_label d -> exists e, from_doh_path (dq_path d) = CidErr (EPathLabel e)).
Proof. exact target_segment_exact. Qed.
Print Assumptions C16_target_segment_exact.

(** A doubly (or more) encoded valid label is NOT a ClientID: the request
    fails, whatever the TLS state, the Host header and the configuration. *)
Theorem C16_double_encoded_not_id : forall seg d y,
  existsb bad_target_byte seg = false -> mem qmark seg = false ->
  unescape seg = Some d -> unescape d = Some y -> valid_label y -> d <> y ->
  exists e,
    from_doh_path (dq_path d) = CidErr (EPathLabel e) /\
    forall host strict tls hh,
      doh_of_target host strict (dq_path seg) tls hh = Some (dq_path d, CidErr (EPathLabel e)).
Proof. exact double_encoded_not_id. Qed.
Print Assumptions C16_double_encoded_not_id.

(** Decoding the element once more: /dns-query/my%252Dphone becomes the
    ClientID my-phone ... *)
Theorem C16_decoding_twice_refuted :
  parse_target (dq_path b_my_252D_phone) = TPath (dq_path b_my_2D_phone) /\
  path_id (dq_path b_my_2D_phone) b_my_2D_phone /\ ~ valid_label b_my_2D_phone /\
  from_doh_path (dq_path b_my_2D_phone) = CidErr (EPathLabel LBadRune) /\
  from_doh_path_again (dq_path b_my_2D_phone) = CidOk b_my_phone.
Proof. exact decoding_twice_refuted. Qed.
Print Assumptions C16_decoding_twice_refuted.

(** ... while nothing changes where no percent sign is left. *)
Theorem C16_decoding_twice_invisible : forall D,
  (forall x, path_id D x -> mem percent x = false) ->
  from_doh_path_again D = from_doh_path D.
Proof. exact decoding_twice_invisible. Qed.
Print Assumptions C16_decoding_twice_invisible.

(** * Round 8: the key of the hand-over cache (Model/ClientIDKey.v).  The
    hand-over is exact as long as the key function is injective on the
    RequestIDs in play. *)

Theorem C16_handover_exact_keyed : forall cf kf evs1 evs2 rid cid,
  fits cf cid ->
  (forall e, In e (evs1 ++ evs2) -> ev_rid e <> rid) ->
  (forall e, In e (evs1 ++ evs2) -> kf (ev_rid e) <> kf rid) ->
  (length evs2 < cc_max_count cf)%nat ->
  seen_keyed cf kf (evs1 ++ EvBefore rid cid :: evs2) rid = cid.
Proof. exact handover_exact_keyed. Qed.
Print Assumptions C16_handover_exact_keyed.

(** The code's key, 8 bytes big-endian, is injective on uint64 ... *)
Theorem C16_key64_injective : forall r1 r2,
  (r1 < 2 ^ 64)%N -> (r2 < 2 ^ 64)%N -> key64_bytes r1 = key64_bytes r2 -> r1 = r2.
Proof. exact key64_injective. Qed.
Print Assumptions C16_key64_injective.

Theorem C16_key_bytes_value : forall rid,
  be_value (key64_bytes rid) = key64 rid /\ be_value (key32_bytes rid) = key32 rid.
Proof. intros rid. split; [exact (key64_bytes_value rid)|exact (key32_bytes_value rid)]. Qed.
Print Assumptions C16_key_bytes_value.

(** ... so with RequestIDs that are uint64 and the requests' own, whatever
    their size, a request is processed with exactly its own extraction. *)
Theorem C16_handover_exact_needs_injective_key : forall evs1 evs2 rid cid,
  (rid < 2 ^ 64)%N -> (forall e, In e (evs1 ++ evs2) -> (ev_rid e < 2 ^ 64)%N) ->
  (forall e, In e (evs1 ++ evs2) -> ev_rid e <> rid) ->
  (length evs2 < 1024)%nat ->
  seen_keyed server_cache_conf key64 (evs1 ++ EvBefore rid cid :: evs2) rid = cid.
Proof. exact handover_exact_code. Qed.
Print Assumptions C16_handover_exact_needs_injective_key.

Theorem C16_plain_never_id_any_request_id : forall evs1 evs2 rid,
  (rid < 2 ^ 64)%N -> (forall e, In e (evs1 ++ evs2) -> (ev_rid e < 2 ^ 64)%N) ->
  (forall e, In e (evs1 ++ evs2) -> ev_rid e <> rid) ->
  (length evs2 < 1024)%nat ->
  seen_keyed server_cache_conf key64 (evs1 ++ EvBefore rid [] :: evs2) rid = [].
Proof. exact plain_never_id_code. Qed.
Print Assumptions C16_plain_never_id_any_request_id.

(** A key of the low 32 bits: request k + 2^32, which extracted nothing, is
    processed as the client of request k. *)
Theorem C16_key32_refuted :
  exists k evs1 rid,
    (rid < 2 ^ 64)%N /\ (forall e, In e evs1 -> (ev_rid e < 2 ^ 64)%N /\ ev_rid e <> rid) /\
    evs1 = [EvBefore k w_alice; EvInitial k] /\ rid = (k + 2 ^ 32)%N /\
    seen_keyed server_cache_conf key32 (evs1 ++ [EvBefore rid []]) rid = w_alice /\
    seen_keyed server_cache_conf key64 (evs1 ++ [EvBefore rid []]) rid = [].
Proof. exact key32_refuted. Qed.
Print Assumptions C16_key32_refuted.

(** C16: ClientIDs come only from a well-formed DoH path or server-name label.
    Only statements here; definitions in Model/ClientID.v, proofs and the
    vocabulary ([immediate_sub], [path_id], [path_plain], [reaches_sni],
    [lookalike]) in Proofs/ClientID.v. *)
From Coq Require Import List NArith.
From AGH Require Import Base.Run Base.Bytes Base.Dom Base.PathClean Model.ClientID Proofs.ClientID.
Import ListNotations.

(** A returned non-empty ClientID: the protocol is DoH, DoT or DoQ; the id is a
    valid host-name label in lower case; and it is the lower-cased <x> of a
    cleaned path /dns-query/<x>, or of the client's server name <x>.<configured
    name> with <x> a single label (the decomposition is unique, so it cannot be
    somebody else's). *)
Theorem C16_sound : forall p host strict sni h id,
  client_id_of p host strict sni h = CidOk id -> id <> [] ->
  secure p /\ valid_label id /\ lower id = id /\
  ((p = DoH /\ exists r x, h = Some r /\ path_id (d_path r) x /\ valid_label x /\ id = lower x) \/
   (reaches_sni p h /\ host <> [] /\
    exists cli x, server_name_of p sni h = inr cli /\ immediate_sub cli host x /\
                  valid_label x /\ id = lower x)).
Proof. exact sound. Qed.
Print Assumptions C16_sound.

Theorem C16_label_unique : forall cli host x y,
  immediate_sub cli host x -> immediate_sub cli host y -> x = y.
Proof. exact immediate_sub_unique. Qed.
Print Assumptions C16_label_unique.

(** A present but invalid label is an error: never "no ClientID", never another id. *)
Theorem C16_invalid_fails : forall host strict sni r x,
  path_id (d_path r) x -> ~ valid_label x ->
  exists e, client_id_of DoH host strict sni (Some r) = CidErr (EPathLabel e).
Proof. exact invalid_path_fails. Qed.
Print Assumptions C16_invalid_fails.

Theorem C16_invalid_fails_sni : forall p host strict sni h cli x,
  reaches_sni p h -> host <> [] -> server_name_of p sni h = inr cli ->
  immediate_sub cli host x -> ~ valid_label x ->
  exists e, client_id_of p host strict sni h = CidErr (ESniLabel e).
Proof. exact invalid_sni_fails. Qed.
Print Assumptions C16_invalid_fails_sni.

(** ... and a valid one is attributed, lower-cased. *)
Theorem C16_valid_attributed : forall host strict sni r x,
  path_id (d_path r) x -> valid_label x ->
  client_id_of DoH host strict sni (Some r) = CidOk (lower x).
Proof. exact valid_path_attributed. Qed.
Print Assumptions C16_valid_attributed.

Theorem C16_valid_attributed_sni : forall p host strict sni h cli x,
  reaches_sni p h -> host <> [] -> server_name_of p sni h = inr cli ->
  immediate_sub cli host x -> valid_label x ->
  client_id_of p host strict sni h = CidOk (lower x).
Proof. exact valid_sni_attributed. Qed.
Print Assumptions C16_valid_attributed_sni.

(** Plain DNS and DNSCrypt never carry a ClientID, whatever else is in the context. *)
Theorem C16_plain_none : forall host strict sni h,
  client_id_of UDP host strict sni h = CidOk [] /\
  client_id_of TCP host strict sni h = CidOk [] /\
  client_id_of DNSCrypt host strict sni h = CidOk [].
Proof. exact plain_none. Qed.
Print Assumptions C16_plain_none.

(** Strict server-name checking rejects every name that is neither the
    configured one nor an immediate subdomain of it. *)
Theorem C16_strict : forall p host sni h cli,
  reaches_sni p h -> host <> [] -> server_name_of p sni h = inr cli ->
  cli <> host -> (forall x, ~ immediate_sub cli host x) ->
  client_id_of p host true sni h = CidErr EMismatch.
Proof. exact strict_rejects. Qed.
Print Assumptions C16_strict.

(** evil-host, xhost, x.y.host, host.evil.net never produce an id. *)
Theorem C16_lookalike : forall p host strict sni h cli id,
  reaches_sni p h -> host <> [] -> server_name_of p sni h = inr cli ->
  lookalike cli host ->
  client_id_of p host strict sni h = (if strict then CidErr EMismatch else CidOk []) /\
  (client_id_of p host strict sni h = CidOk id -> id = []).
Proof. exact lookalike_no_id. Qed.
Print Assumptions C16_lookalike.

(** Where the server name comes from for DoH: the TLS state if there is one,
    else the Host header without its port. *)
Theorem C16_tls_name_wins : forall r n,
  d_tls_sni r = Some n -> server_name_from_http r = inr n.
Proof. exact tls_name_wins. Qed.
Print Assumptions C16_tls_name_wins.

Theorem C16_host_port_stripped : forall name port,
  name <> [] -> mem colon name = false -> mem lbr name = false -> mem rbr name = false ->
  mem colon port = false -> mem lbr port = false -> mem rbr port = false ->
  split_host (name ++ colon :: port) = Some name.
Proof. exact host_port_stripped. Qed.
Print Assumptions C16_host_port_stripped.

(** [C16_sound] with the origin of the client's server name spelled out
    ([name_source]): for DoH it is the TLS state's ServerName whenever the
    request has a TLS state (also an empty one), and the Host header without
    its port only when it has none; for DoT/DoQ the connection's ServerName. *)
Theorem C16_sound_source : forall p host strict sni h id,
  client_id_of p host strict sni h = CidOk id -> id <> [] ->
  secure p /\ valid_label id /\ lower id = id /\
  ((p = DoH /\ exists r x, h = Some r /\ path_id (d_path r) x /\ valid_label x /\ id = lower x) \/
   (reaches_sni p h /\ host <> [] /\
    exists cli x, name_source p sni h cli /\ immediate_sub cli host x /\
                  valid_label x /\ id = lower x)).
Proof. exact sound_source. Qed.
Print Assumptions C16_sound_source.

Theorem C16_name_source : forall p sni h cli,
  server_name_of p sni h = inr cli <-> name_source p sni h cli.
Proof. exact server_name_source. Qed.
Print Assumptions C16_name_source.

(** A request with a TLS state: the Host header has no influence on the
    outcome, whatever the protocol, path, TLS server name (also empty), strict. *)
Theorem C16_tls_ignores_host : forall p host strict sni path n host1 host2,
  client_id_of p host strict sni (Some (doh_tls path n host1)) =
  client_id_of p host strict sni (Some (doh_tls path n host2)).
Proof. exact tls_ignores_host. Qed.
Print Assumptions C16_tls_ignores_host.

(** ... and an id it yields is the path id or the label before the configured
    name in the TLS server name. *)
Theorem C16_sound_doh_tls : forall host strict sni path n hh id,
  client_id_of DoH host strict sni (Some (doh_tls path n hh)) = CidOk id -> id <> [] ->
  (exists x, path_id path x /\ valid_label x /\ id = lower x) \/
  (path_plain path /\ host <> [] /\
   exists x, immediate_sub n host x /\ valid_label x /\ id = lower x).
Proof. exact sound_doh_tls. Qed.
Print Assumptions C16_sound_doh_tls.

(** DoH over TLS without SNI: the exact outcome.  No fallback to the Host
    header: without an id in the path the empty name is checked (strict: error
    unless no name is configured; otherwise no id); with /dns-query/<x> the path
    decides; a non-empty id can only be the path's. *)
Theorem C16_doh_tls_empty_sni : forall host strict sni path hh,
  (path_plain path ->
   client_id_of DoH host strict sni (Some (doh_tls path [] hh)) =
     match host with
     | [] => CidOk []
     | _ :: _ => if strict then CidErr EMismatch else CidOk []
     end) /\
  (forall x, path_id path x ->
   client_id_of DoH host strict sni (Some (doh_tls path [] hh)) =
     match validate_hostname_label x with
     | Some e => CidErr (EPathLabel e)
     | None => CidOk (lower x)
     end) /\
  (forall id, client_id_of DoH host strict sni (Some (doh_tls path [] hh)) = CidOk id -> id <> [] ->
   exists x, path_id path x /\ valid_label x /\ id = lower x).
Proof. exact doh_tls_empty_sni. Qed.
Print Assumptions C16_doh_tls_empty_sni.

(** Plain-HTTP DoH (no TLS state): the exact outcome in terms of the Host header. *)
Theorem C16_doh_plain_host : forall host strict sni path hh,
  path_plain path -> host <> [] ->
  client_id_of DoH host strict sni (Some (doh_plain path hh)) =
    match hh with
    | [] => if strict then CidErr EMismatch else CidOk []
    | _ :: _ =>
        match split_host hh with
        | Some name => from_server_name host name strict
        | None => CidErr EHostParse
        end
    end.
Proof. exact doh_plain_host. Qed.
Print Assumptions C16_doh_plain_host.

Theorem C16_host_bracket_stripped : forall a port,
  mem lbr a = false -> mem rbr a = false ->
  mem colon port = false -> mem lbr port = false -> mem rbr port = false ->
  split_host (lbr :: a ++ rbr :: colon :: port) = Some a.
Proof. exact split_host_bracket. Qed.
Print Assumptions C16_host_bracket_stripped.

Theorem C16_host_two_colons_rejected : forall a b c,
  a <> [] -> mem lbr a = false -> mem colon c = false ->
  split_host (a ++ colon :: b ++ colon :: c) = None.
Proof. exact split_host_two_colons. Qed.
Print Assumptions C16_host_two_colons_rejected.

Theorem C16_from_host_only_without_tls : forall r,
  name_from_host r = true -> d_tls_sni r = None.
Proof. exact from_host_only_without_tls. Qed.
Print Assumptions C16_from_host_only_without_tls.

(** Facts about the cleaned path the statements above rely on. *)
Theorem C16_clean_idempotent : forall p, clean (clean p) = clean p.
Proof. exact clean_idem. Qed.
Print Assumptions C16_clean_idempotent.

Theorem C16_valid_label_spec : forall l, validate_hostname_label l = None <-> valid_label l.
Proof. exact validate_hostname_label_spec. Qed.
Print Assumptions C16_valid_label_spec.

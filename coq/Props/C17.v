(** C17: local files are read as filter lists only when matching configured
    safe patterns.  Only statements here; the model is Model/SafeFS.v (over
    Base/Glob.v = filepath.Match and Base/PathClean.v = filepath.Clean), the
    vocabulary ([safe], [ev_ok]) and the proofs are in Proofs/SafeFS.v.

    An event [(loc, src)] records what [reader] chose for a list location at
    download time: [OpenFile p], [HttpGet u] or [Reject k].  [run w st ops]
    gives the status and the events of every step of a history. *)
From Coq Require Import List NArith.
From AGH Require Import Base.Run Base.Bytes Base.PathClean Base.Glob Model.SafeFS Model.SafeFSConf Proofs.GlobCase Proofs.GlobClass Proofs.SafeFS Proofs.SafeFSClient Proofs.SafeFSConf Proofs.SafeFSSpelled.
Import ListNotations.

(** In every world, from every starting state (configured, planted or reached
    by an earlier history) and along every history of add / set-url / refresh:
    a file is opened only for an absolute location, it is the cleaned
    location, and some configured pattern matches it -- byte for byte, letter
    case included ([safe_exact]): for a matching pattern without classes and
    escapes the path is aligned with the pattern, every literal pattern byte
    standing for exactly that byte; if that pattern has no upper-case letter,
    no upper-case letter of the path lies in a literal position; and a pattern
    of literal bytes only admits the path equal to it. *)
Theorem C17_open_implies_safe : forall w st ops s evs loc p,
  In (s, evs) (snd (run w st ops)) -> In (loc, OpenFile p) evs ->
  is_abs loc = true /\ p = clean loc /\ safe (w_pats w) p /\ safe_exact (w_pats w) p.
Proof. exact open_implies_safe. Qed.
Print Assumptions C17_open_implies_safe.

(** Letter case is significant in the matcher itself.  A pattern without
    classes and escapes and without upper-case letters: in the alignment of
    any matching name, every piece a literal pattern byte stands for is free
    of upper-case letters (such a letter can only lie under a [*] or [?]). *)
Theorem C17_match_case_exact : forall pat name,
  plain_pattern pat = true -> glob_match pat name = GOk true -> no_upper pat = true ->
  exists pieces, aligned pat name pieces /\
    Forall (fun pc => is_lit (fst pc) = true -> no_upper (snd pc) = true) pieces.
Proof. exact glob_case_exact. Qed.
Print Assumptions C17_match_case_exact.

Theorem C17_match_aligned : forall pat name,
  plain_pattern pat = true -> glob_match pat name = GOk true ->
  exists pieces, aligned pat name pieces.
Proof. exact glob_match_aligned. Qed.
Print Assumptions C17_match_aligned.

(** A pattern of literal bytes admits exactly itself ("exact.list" never
    admits "Exact.list"). *)
Theorem C17_literal_pattern_exact : forall pat name,
  forallb is_lit pat = true -> glob_match pat name = GOk true -> name = pat.
Proof. exact glob_literal_exact. Qed.
Print Assumptions C17_literal_pattern_exact.

(** With literal lower-case patterns only, no opened path has an upper-case
    letter, whatever the spelling of the location. *)
Theorem C17_literal_lower_patterns_no_upper : forall pats loc p,
  Forall (fun g => forallb is_lit g = true /\ no_upper g = true) pats ->
  reader pats loc = OpenFile p -> no_upper p = true.
Proof. exact literal_lower_patterns_no_upper. Qed.
Print Assumptions C17_literal_lower_patterns_no_upper.

(** Matching after lower-casing both sides (red-team change C17-F) is another
    relation: it admits a path the configured pattern does not match. *)
Theorem C17_lowered_match_differs :
  glob_match (lower ex_pat_ext) (lower ex_name_dir) = GOk true /\
  glob_match ex_pat_ext ex_name_dir = GOk false.
Proof. exact lowered_match_differs. Qed.
Print Assumptions C17_lowered_match_differs.

(** The same at the level of the single decision. *)
Theorem C17_reader_open : forall pats loc p,
  reader pats loc = OpenFile p -> is_abs loc = true /\ p = clean loc /\ safe pats p.
Proof. exact reader_open. Qed.
Print Assumptions C17_reader_open.

(** Validation at add / set-url accepts an absolute location only if it
    exists and is safe, and then the reader opens exactly that path. *)
Theorem C17_validate_abs : forall pats ex uok loc,
  validate_url pats ex uok loc = None -> is_abs loc = true ->
  ex (clean loc) = true /\ safe pats (clean loc).
Proof. exact validate_accepts_abs. Qed.
Print Assumptions C17_validate_abs.

Theorem C17_validate_reader_agree : forall pats ex uok loc,
  is_abs loc = true -> validate_url pats ex uok loc = None ->
  reader pats loc = OpenFile (clean loc).
Proof. exact validate_reader_agree. Qed.
Print Assumptions C17_validate_reader_agree.

Theorem C17_no_patterns_no_file : forall w st ops s evs loc p,
  w_pats w = [] -> In (s, evs) (snd (run w st ops)) -> ~ In (loc, OpenFile p) evs.
Proof. exact no_patterns_no_file. Qed.
Print Assumptions C17_no_patterns_no_file.

(** A location that is not absolute (relative path, file:, ftp:, any scheme)
    is only ever handed to the HTTP client. *)
Theorem C17_relative_never_file : forall w st ops s evs loc src,
  In (s, evs) (snd (run w st ops)) -> In (loc, src) evs -> is_abs loc = false ->
  src = HttpGet loc.
Proof. exact relative_never_file. Qed.
Print Assumptions C17_relative_never_file.

Theorem C17_scheme_not_absolute : forall c rest, c <> slash -> is_abs (c :: rest) = false.
Proof. exact scheme_not_abs. Qed.
Print Assumptions C17_scheme_not_absolute.

(** The opened path has no empty, "." or ".." element, and a class-free
    pattern matches it only if both have the same number of separators:
    [*] and [?] never stand for '/'. *)
Theorem C17_no_traversal : forall pats loc p g,
  reader pats loc = OpenFile p ->
  (p = [slash] \/ exists segs, segs <> [] /\ split slash p = [] :: segs /\ Forall real segs) /\
  (In g pats -> plain_pattern g = true -> glob_match g p = GOk true ->
   count sep p = count sep g).
Proof. exact no_traversal. Qed.
Print Assumptions C17_no_traversal.

Theorem C17_star_never_matches_separator : forall pat name,
  plain_pattern pat = true -> glob_match pat name = GOk true -> count sep name = count sep pat.
Proof. exact glob_match_slashes. Qed.
Print Assumptions C17_star_never_matches_separator.

(** Refresh applies the same predicate immediately before opening: an entry
    with an absolute, unsafe location is not read and stays as it was. *)
Theorem C17_recheck_at_refresh : forall w st white st' s evs f,
  refresh w st white = (st', s, evs) ->
  In f (get_list st white) -> is_abs (f_url f) = true ->
  ~ safe (w_pats w) (clean (f_url f)) ->
  In f (get_list st' white) /\
  forall src, In (f_url f, src) evs -> exists k, src = Reject k.
Proof. exact recheck_at_refresh. Qed.
Print Assumptions C17_recheck_at_refresh.

(** The periodic path (the timer of updatesLoop calling
    periodicallyRefreshFilters: both arrays, not forced) is one of the steps
    of the histories above; on its own: every location it looks at is decided
    by the same [reader], it looks only at entries that are due, and an
    absolute, unsafe location is rejected. *)
Theorem C17_recheck_at_periodic : forall w st due st' s evs loc src,
  periodic w st due = (st', s, evs) -> In (loc, src) evs ->
  src = reader (w_pats w) loc /\ In loc due /\
  (is_abs loc = true -> ~ safe (w_pats w) (clean loc) -> exists k, src = Reject k).
Proof. exact recheck_at_periodic. Qed.
Print Assumptions C17_recheck_at_periodic.

(** Cleaning: idempotent, keeps absolute paths absolute. *)
Theorem C17_clean_idempotent : forall p, clean (clean p) = clean p.
Proof. exact clean_idem. Qed.
Print Assumptions C17_clean_idempotent.

Theorem C17_clean_absolute : forall p, is_abs (clean p) = is_abs p.
Proof. exact clean_is_abs. Qed.
Print Assumptions C17_clean_absolute.

(** With the single pattern "dir/*" ([dir] without pattern characters),
    whatever is opened is [dir]/x with x free of separators. *)
Theorem C17_dir_star_only : forall d loc p,
  forallb is_lit d = true ->
  reader [d ++ [sep; c_star]] loc = OpenFile p ->
  exists x, p = d ++ sep :: x /\ mem sep x = false /\ p = clean loc.
Proof. exact dir_star_only. Qed.
Print Assumptions C17_dir_star_only.

(** * Round 4 (G): the HTTP client is a parameter of the world

    [reader] hands every location that is not an absolute path to the HTTP
    client, whatever its scheme; what the client answers is the table [w_http],
    any table.  [client_no_local w]: the client never hands back the content of
    a local file.  The harness evaluates this hypothesis (its executable form,
    [C17_client_hypothesis_executable]) on the client that package home builds
    and stores in filtering.Config.HTTPClient, for every spelling it generates. *)

(** The single decision: under the hypothesis, reading a location yields the
    content of a local file only if the location is an absolute path, the file
    is its cleaned form and a configured pattern matches it. *)
Theorem C17_delivered_local_implies_safe : forall w loc m,
  client_no_local w ->
  fetch w (reader (w_pats w) loc) = Some m -> local_content w m ->
  is_abs loc = true /\ reader (w_pats w) loc = OpenFile (clean loc) /\
  lookup (clean loc) (w_files w) = Some m /\ safe (w_pats w) (clean loc).
Proof. exact delivered_local_implies_safe. Qed.
Print Assumptions C17_delivered_local_implies_safe.

(** No scheme and no relative spelling delivers the content of a local file. *)
Theorem C17_nonabsolute_never_local : forall w loc m,
  client_no_local w -> is_abs loc = false ->
  fetch w (reader (w_pats w) loc) = Some m -> ~ local_content w m.
Proof. exact nonabsolute_never_local. Qed.
Print Assumptions C17_nonabsolute_never_local.

(** The state: along every history (add / set-url / refresh / periodic, any
    locations, planted or offered) the lists never come to hold the content of
    a local file that no configured pattern matches. *)
Theorem C17_loaded_local_content_safe : forall w,
  client_no_local w -> markers_nonzero w ->
  forall ops st, state_ok w st -> state_ok w (fst (run w st ops)).
Proof. exact loaded_local_content_safe. Qed.
Print Assumptions C17_loaded_local_content_safe.

Theorem C17_loaded_file_is_safe : forall w ops st f p,
  client_no_local w -> markers_nonzero w -> files_distinct w -> state_ok w st ->
  In f (entries (fst (run w st ops))) -> lookup p (w_files w) = Some (f_loaded f) ->
  safe (w_pats w) p.
Proof. exact loaded_file_is_safe. Qed.
Print Assumptions C17_loaded_file_is_safe.

(** With no patterns configured no content of a local file is ever loaded. *)
Theorem C17_no_patterns_no_local_content : forall w ops st f,
  client_no_local w -> markers_nonzero w -> w_pats w = [] ->
  (forall g, In g (entries st) -> ~ local_content w (f_loaded g)) ->
  In f (entries (fst (run w st ops))) -> ~ local_content w (f_loaded f).
Proof. exact no_patterns_no_local_content. Qed.
Print Assumptions C17_no_patterns_no_local_content.

(** Where the content of an entry comes from, step by step. *)
Theorem C17_step_provenance : forall w st o st' s evs,
  step w st o = (st', s, evs) -> forall f', In f' (entries st') -> provenance w st f'.
Proof. exact step_provenance. Qed.
Print Assumptions C17_step_provenance.

(** The hypothesis is needed: with a client that answers [file:] URLs from the
    disk (red-team change C17-G), no patterns, one list from the configuration
    and one refresh, the property fails. *)
Theorem C17_client_hypothesis_needed :
  exists w st ops, markers_nonzero w /\ w_pats w = [] /\ state_ok w st /\
                   ~ state_ok w (fst (run w st ops)).
Proof. exact client_hypothesis_needed. Qed.
Print Assumptions C17_client_hypothesis_needed.

Theorem C17_client_hypothesis_executable : forall w,
  client_no_local_b (w_files w) (w_http w) = true -> client_no_local w.
Proof. exact client_no_local_b_sound. Qed.
Print Assumptions C17_client_hypothesis_executable.

(** * Round 4 (H): the text of a pattern is not a licence *)

(** The matcher alone decides; that the cleaned location is, character for
    character, one of the configured patterns counts for nothing. *)
Theorem C17_pattern_text_no_licence : forall pats loc,
  In (clean loc) pats ->
  (forall g, In g pats -> glob_match g (clean loc) <> GOk true) ->
  forall p, reader pats loc <> OpenFile p.
Proof. exact pattern_text_no_licence. Qed.
Print Assumptions C17_pattern_text_no_licence.

(** A class of plain ASCII members between literal bytes admits exactly one
    member in the place of the brackets ... *)
Theorem C17_class_pattern_exact : forall lit1 cs lit2 name,
  forallb is_lit lit1 = true -> forallb is_cmember cs = true -> cs <> [] ->
  forallb is_lit lit2 = true ->
  glob_match (lit1 ++ c_lbr :: cs ++ c_rbr :: lit2) name = GOk true ->
  exists c, In c cs /\ name = lit1 ++ c :: lit2.
Proof. exact class_pattern_exact. Qed.
Print Assumptions C17_class_pattern_exact.

(** ... so a file named exactly like such a pattern is never opened under it
    (red-team change C17-H), whatever the spelling of the location. *)
Theorem C17_class_pattern_own_text_rejected : forall lit1 cs lit2 loc p,
  forallb is_lit lit1 = true -> forallb is_cmember cs = true -> cs <> [] ->
  forallb is_lit lit2 = true ->
  clean loc = lit1 ++ c_lbr :: cs ++ c_rbr :: lit2 ->
  reader [lit1 ++ c_lbr :: cs ++ c_rbr :: lit2] loc <> OpenFile p.
Proof. exact class_pattern_own_text_rejected. Qed.
Print Assumptions C17_class_pattern_own_text_rejected.

Theorem C17_class_pattern_opens_members : forall lit1 cs lit2 loc p,
  forallb is_lit lit1 = true -> forallb is_cmember cs = true -> cs <> [] ->
  forallb is_lit lit2 = true ->
  reader [lit1 ++ c_lbr :: cs ++ c_rbr :: lit2] loc = OpenFile p ->
  exists c, In c cs /\ p = lit1 ++ c :: lit2 /\ p = clean loc.
Proof. exact class_pattern_opens_members. Qed.
Print Assumptions C17_class_pattern_opens_members.

(** One escape between literal bytes admits exactly the escaped character in
    its place (never the backslash). *)
Theorem C17_escape_pattern_exact : forall lit1 c lit2 name,
  forallb is_lit lit1 = true -> forallb is_lit lit2 = true ->
  glob_match (lit1 ++ c_bslash :: c :: lit2) name = GOk true -> name = lit1 ++ c :: lit2.
Proof. exact escape_pattern_exact. Qed.
Print Assumptions C17_escape_pattern_exact.

(** * Round 5: where the pattern list comes from

    The patterns travel from the configuration file to the filter through
    package home's start-up ([load]: yaml decoding of
    [filtering.safe_fs_patterns] over the default configuration object,
    validateConfig, setupDNSFilteringConf, filtering.New) and back through
    config.write ([write_shape]).  [configured y] is what the file lists under
    the key: nothing for an absent key, a null, an empty sequence. *)

(** The patterns in force are exactly the configured ones, and so is the slice
    of the configuration object. *)
Theorem C17_in_force_exactly_configured : forall wd dflt y g pats,
  default_lists_none dflt -> load wd dflt y = StStarted g pats ->
  pats = configured y /\ elems g = configured y.
Proof. exact in_force_exactly_configured. Qed.
Print Assumptions C17_in_force_exactly_configured.

(** Every start-up is rejected by the decoder, rejected by New because a
    listed pattern is malformed where the matcher looks, or runs with the
    listed patterns; the file alone decides. *)
Theorem C17_load_cases : forall wd dflt y,
  default_lists_none dflt ->
  (load wd dflt y = StRejectedParse /\ decode dflt y = None) \/
  (exists g, load wd dflt y = StRejectedNew g /\ elems g = configured y /\
             exists p, In p (configured y) /\ glob_match p probe_name = GBad) \/
  (exists g, load wd dflt y = StStarted g (configured y) /\ elems g = configured y).
Proof. exact load_cases. Qed.
Print Assumptions C17_load_cases.

(** No key, a null, an empty list: no pattern in force. *)
Theorem C17_no_configured_patterns_none_in_force : forall wd dflt y g pats,
  default_lists_none dflt -> configured y = [] ->
  load wd dflt y = StStarted g pats -> pats = [].
Proof. exact no_configured_patterns_none_in_force. Qed.
Print Assumptions C17_no_configured_patterns_none_in_force.

Theorem C17_absent_null_empty_start_without_patterns : forall wd dflt,
  default_lists_none dflt ->
  load wd dflt YAbsent = StStarted dflt [] /\
  load wd dflt YNull = StStarted GNil [] /\
  load wd dflt (YSeq []) = StStarted (GSlice []) [] /\
  load wd dflt (YSeq [YINull]) = StStarted (GSlice []) [].
Proof. exact absent_null_empty_start_without_patterns. Qed.
Print Assumptions C17_absent_null_empty_start_without_patterns.

(** A nil and an empty slice (and any two slices with the same elements) put
    the same patterns in force. *)
Theorem C17_nil_and_empty_alike : forall wd dflt y1 y2 g1 g2 p1 p2,
  load wd dflt y1 = StStarted g1 p1 -> load wd dflt y2 = StStarted g2 p2 ->
  elems g1 = elems g2 -> p1 = p2.
Proof. exact nil_and_empty_alike. Qed.
Print Assumptions C17_nil_and_empty_alike.

(** The property's second clause from the file: a configuration file that
    lists no pattern -> along every history no file is opened and the lists
    never hold the content of a local file. *)
Theorem C17_conf_no_patterns_no_local_content : forall wd dflt y w ops st f,
  default_lists_none dflt -> configured y = [] -> world_of_file wd dflt y w ->
  client_no_local w -> markers_nonzero w ->
  (forall g, In g (entries st) -> ~ local_content w (f_loaded g)) ->
  In f (entries (fst (run w st ops))) -> ~ local_content w (f_loaded f).
Proof. exact conf_no_patterns_no_local_content. Qed.
Print Assumptions C17_conf_no_patterns_no_local_content.

Theorem C17_conf_no_patterns_no_file : forall wd dflt y w st ops s evs loc p,
  default_lists_none dflt -> configured y = [] -> world_of_file wd dflt y w ->
  In (s, evs) (snd (run w st ops)) -> ~ In (loc, OpenFile p) evs.
Proof. exact conf_no_patterns_no_file. Qed.
Print Assumptions C17_conf_no_patterns_no_file.

(** The first clause from the file: the content of a local file is loaded
    only if a pattern the file lists matches its path. *)
Theorem C17_conf_loaded_file_is_safe : forall wd dflt y w ops st f p,
  default_lists_none dflt -> world_of_file wd dflt y w ->
  client_no_local w -> markers_nonzero w -> files_distinct w -> state_ok w st ->
  In f (entries (fst (run w st ops))) -> lookup p (w_files w) = Some (f_loaded f) ->
  safe (configured y) p.
Proof. exact conf_loaded_file_is_safe. Qed.
Print Assumptions C17_conf_loaded_file_is_safe.

(** The loader accepts the empty string and relative patterns; those that are
    empty or begin with a literal byte other than the separator (no classes,
    no escapes) admit no path at all. *)
Theorem C17_inert_patterns_open_nothing : forall pats loc p,
  (forall g, In g pats -> admits_no_abs g) -> reader pats loc <> OpenFile p.
Proof. exact inert_patterns_open_nothing. Qed.
Print Assumptions C17_inert_patterns_open_nothing.

(** A save and a restart: what config.write puts into the file is what was in
    force, and reading that file puts the same patterns in force again. *)
Theorem C17_roundtrip_patterns_unchanged : forall wd dflt dflt' y g pats,
  load wd dflt y = StStarted g pats ->
  load wd dflt' (write_shape g) = StStarted (GSlice (elems g)) pats /\
  configured (write_shape g) = pats.
Proof. exact roundtrip_patterns_unchanged. Qed.
Print Assumptions C17_roundtrip_patterns_unchanged.

Theorem C17_safe_across_restart : forall wd dflt dflt' y g w w2 ops1 ops2 st,
  load wd dflt y = StStarted g (w_pats w) ->
  world_of_file wd dflt' (write_shape g) w2 ->
  w_files w2 = w_files w -> w_http w2 = w_http w ->
  client_no_local w -> markers_nonzero w -> state_ok w st ->
  state_ok w2 (fst (run w2 (restart_state (fst (run w st ops1))) ops2)).
Proof. exact safe_across_restart. Qed.
Print Assumptions C17_safe_across_restart.

(** A loader that fills in the installation default for a file without the
    list (red-team change C17-I) breaks the clause: a null key, one enabled
    list under <workDir>/userfilters/ in the file, one refresh. *)
Theorem C17_default_filling_loader_refuted :
  exists wd y w st ops f,
    configured y = [] /\
    (exists g, load_filling wd GNil y = StStarted g (w_pats w)) /\
    client_no_local w /\ markers_nonzero w /\
    (forall g, In g (entries st) -> ~ local_content w (f_loaded g)) /\
    In f (entries (fst (run w st ops))) /\ local_content w (f_loaded f).
Proof. exact default_filling_loader_refuted. Qed.
Print Assumptions C17_default_filling_loader_refuted.

(** ... and only there: with any explicit list, the empty one included (what
    the server itself writes), the filling loader is the loader. *)
Theorem C17_filling_differs_only_without_list : forall wd dflt y items,
  y = YSeq items -> load_filling wd dflt y = load wd dflt y.
Proof. exact filling_differs_only_without_list. Qed.
Print Assumptions C17_filling_differs_only_without_list.

(** * Round 8: a local location is used as spelled

    The design invariant: the string checked against the patterns and the
    string opened are the same string, [clean loc]; percent signs are ordinary
    bytes of a file name. *)
Theorem C17_checked_path_is_opened_path : forall pats loc p,
  reader pats loc = OpenFile p ->
  is_abs loc = true /\ p = clean loc /\ path_matches_any pats (clean loc) = PmYes.
Proof. exact checked_path_is_opened_path. Qed.
Print Assumptions C17_checked_path_is_opened_path.

(** The bytes read for a local location come from the file at the cleaned
    spelled path only. *)
Theorem C17_read_content_is_at_spelled_path : forall w loc m,
  is_abs loc = true -> fetch w (reader (w_pats w) loc) = Some m ->
  lookup (clean loc) (w_files w) = Some m /\ reader (w_pats w) loc = OpenFile (clean loc).
Proof. exact read_content_is_at_spelled_path. Qed.
Print Assumptions C17_read_content_is_at_spelled_path.

Theorem C17_validated_path_is_checked_path : forall pats ex uok loc,
  is_abs loc = true -> validate_url pats ex uok loc = None ->
  ex (clean loc) = true /\ path_matches_any pats (clean loc) = PmYes.
Proof. exact validated_path_is_checked_path. Qed.
Print Assumptions C17_validated_path_is_checked_path.

(** Percent-decoding between the check and the open (red-team change C17-O):
    pattern /r/lists/*, location /r/lists/..%2Fsecret.txt: one element for the
    matcher, /r/lists/../secret.txt = /r/secret.txt for the file system. *)
Theorem C17_decode_between_check_and_open_refuted :
  exists pats loc p,
    reader_decoding pats loc = OpenFile p /\
    p <> clean loc /\ clean p = ex_secret_file /\
    ~ safe pats p /\ ~ safe pats (clean p).
Proof. exact decode_between_check_and_open_refuted. Qed.
Print Assumptions C17_decode_between_check_and_open_refuted.

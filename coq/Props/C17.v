From AGH Require Import Base.Run Base.Bytes Base.PathClean Base.Glob Model.SafeFS Proofs.SafeFS.
Theorem C17_relative_never_file : forall pats loc, is_abs loc = false -> reader pats loc = HttpGet loc.
Proof. exact relative_never_file. Qed.
Print Assumptions C17_relative_never_file.

(** C07: the query log returns every recorded query exactly once, newest
    first, with paging.  Only statements here; proofs in Proofs/QLog.v (which
    rests on the C20 reader theorems of Proofs/QLogFile.v).

    Vocabulary (Proofs/QLog.v): [flat s] = rotated file ++ current file ++
    ring buffer, oldest first; [flatv s] = the same without the buffer of a
    log configured with mem_size 0; [keep c p e] = not ignored (host list,
    client flag) and satisfying cursor and criteria; [vis s p] = filter keep
    (rev (flatv s)): the visible log, newest first; [hist_ok me lo ops]: the
    recorded entries have strictly increasing stamps and lines shorter than
    the entry limit. *)
From Coq Require Import ZArith NArith List Bool String.
From AGH Require Import Base.Run Model.QLogFile Model.QLog Model.QLogCodec Proofs.QLog Proofs.QLogCursor Proofs.QLogCodec
  Proofs.QLogCodecScan Proofs.QLogCodecDec Proofs.QLogCodecLoc Proofs.QLogFold Proofs.QLogCodecAll
  Model.QLogServe Proofs.QLogServe Model.QLogRotate Proofs.QLogRotate Model.QLogClients Proofs.QLogClients
  Proofs.QLogOrder Proofs.QLogParams.
From AGH Require Model.ClientIndex Proofs.ClientIndex.
Import ListNotations.
Local Open Scope Z_scope.

(** Refinement, part 1: after ANY history of add / flush / rotate / clear /
    configuration change / restart the state is well formed ... *)
Theorem C07_history_wf : forall me c ops lo, hist_ok me lo ops -> wf me (run c ops).
Proof. exact wf_run. Qed.
Print Assumptions C07_history_wf.

(** ... and in every well-formed state a request without cursor, with no
    search criteria, whose limit covers the log, returns exactly the entries
    the log holds and may show (not ignored), each once, newest first, whether
    they sit in memory, in the current file or in the rotated file. *)
Theorem C07_complete_once_ordered : forall me bf s p,
  0 < me <= bf -> wf me s ->
  p_older p = None -> p_crits p = [] -> p_offset p = 0 ->
  0 < p_limit p -> lenZ (flatv s) <= p_limit p ->
  (p_scan p <= 0 \/ lenZ (on_disk s) <= p_scan p) ->
  exists o, search me bf s p = Ok (filter (shown (cfg s)) (rev (flatv s))) o.
Proof. exact complete_once_ordered. Qed.
Print Assumptions C07_complete_once_ordered.

(** Refinement, part 2: what each operation does to the log [flat].  An add
    while enabled appends exactly the entry (the ring buffer drops its oldest
    entry only when it is full, which with file logging on never happens:
    C07_add_keeps); flush changes nothing; rotate drops exactly the previous
    rotated file; clear empties; a configuration change keeps everything; a
    restart keeps everything when file logging is on, else the disk part. *)
Theorem C07_op_add_disabled : forall s e, enabled (cfg s) = false -> add s e = s.
Proof. exact flat_add_disabled. Qed.
Print Assumptions C07_op_add_disabled.

Theorem C07_op_add : forall s e, enabled (cfg s) = true ->
  flat (add s e) = on_disk s ++ push (cfg s) (buf s) e.
Proof. exact flat_add_enabled. Qed.
Print Assumptions C07_op_add.

Theorem C07_push_room : forall c b e, lenZ b < cap c -> push c b e = b ++ [e].
Proof. exact push_room. Qed.
Print Assumptions C07_push_room.

Theorem C07_push_full : forall c b e, lenZ b >= cap c -> push c b e = tl (b ++ [e]).
Proof. exact push_full. Qed.
Print Assumptions C07_push_full.

Theorem C07_add_keeps : forall s e,
  enabled (cfg s) = true -> file_enabled (cfg s) = true -> pending s = false -> lenZ (buf s) < cap (cfg s) ->
  flat (add s e) = flat s ++ [e] /\ lenZ (buf (add s e)) < cap (cfg (add s e)) /\ pending (add s e) = false.
Proof. exact add_file_enabled_keeps. Qed.
Print Assumptions C07_add_keeps.

Theorem C07_op_flush : forall s, flat (flush s) = flat s.
Proof. exact flat_flush. Qed.
Print Assumptions C07_op_flush.

Theorem C07_op_rotate : forall s c, cur s = Some c -> flat (rotate s) = c ++ buf s.
Proof. exact flat_rotate. Qed.
Print Assumptions C07_op_rotate.

Theorem C07_op_rotate_nothing : forall s, cur s = None -> rotate s = s.
Proof. exact flat_rotate_none. Qed.
Print Assumptions C07_op_rotate_nothing.

Theorem C07_op_clear : forall s, flat (clear s) = [].
Proof. exact flat_clear. Qed.
Print Assumptions C07_op_clear.

Theorem C07_op_set_config : forall s en ign cl, flat (set_config s en ign cl) = flat s.
Proof. exact flat_set_config. Qed.
Print Assumptions C07_op_set_config.

Theorem C07_op_restart : forall s c,
  flat (restart s c) = if file_enabled (cfg s) then flat s else on_disk s.
Proof. exact flat_restart. Qed.
Print Assumptions C07_op_restart.

(** Offset paging and filters: for every limit >= 1, offset >= 0 and every
    combination of criteria, the response is exactly the [limit] entries
    following the first [offset] ones of the visible log filtered by the
    criteria; the returned cursor is the time of the last entry of the page. *)
Theorem C07_offset_paging : forall me bf s p,
  0 < me <= bf -> wf me s -> p_older p = None ->
  0 < p_limit p -> 0 <= p_offset p ->
  (p_scan p <= 0 \/ lenZ (on_disk s) <= p_scan p) ->
  exists o, search me bf s p = Ok (page s p) o /\
            (page s p <> [] -> o = e_time (last (page s p) dflt)).
Proof. exact search_spec. Qed.
Print Assumptions C07_offset_paging.

Theorem C07_page_is_slice : forall s p, 0 <= p_offset p -> 0 <= p_limit p ->
  page s p = firstnZ (p_limit p) (skipnZ (p_offset p) (vis s p)).
Proof. exact page_offset. Qed.
Print Assumptions C07_page_is_slice.

(** Consecutive pages tile the sequence: no gap, no duplicate. *)
Theorem C07_pages_tile : forall (V : list entry) off lim, 0 <= off -> 0 <= lim ->
  firstnZ lim (skipnZ off V) ++ skipnZ (off + lim) V = skipnZ off V.
Proof. exact (@pages_tile entry). Qed.
Print Assumptions C07_pages_tile.

(** Search terms and status filters select exactly the entries that satisfy
    them ([keep] spells out [p_match]: Model.QLog.term_match / status_match). *)
Theorem C07_filters_exact : forall me bf s p,
  0 < me <= bf -> wf me s -> p_older p = None -> p_offset p = 0 ->
  0 < p_limit p -> lenZ (flatv s) <= p_limit p ->
  (p_scan p <= 0 \/ lenZ (on_disk s) <= p_scan p) ->
  exists o, search me bf s p = Ok (vis s p) o.
Proof. exact search_all. Qed.
Print Assumptions C07_filters_exact.

(** Which case folding [term_match] (hence [keep], [vis]) stands for.
    Quoted terms: [equal_fold] = strings.EqualFold restricted to ASCII letters
    plus U+212A (Kelvin sign) ~ k and U+017F (long s) ~ s, the only non-ASCII
    code points whose simple fold is an ASCII letter; on ASCII operands it is
    plain ASCII folding.  Unquoted terms: [contains_fold] = some window of
    the value, of the term's byte length, equals the term after ASCII folding
    (searchcriterion.go containsFold since f792c49: strings.EqualFold on every
    window that starts at a rune).  Both coincide with the Go functions
    whenever the term is ASCII, whatever bytes the value holds; for non-ASCII
    terms only on well-formed UTF-8 whose other runes fold to themselves. *)
Theorem C07_equal_fold_ascii : forall a b, ascii_only a = true -> ascii_only b = true ->
  equal_fold a b = eqb_bytes (fold_case a) (fold_case b).
Proof. exact equal_fold_ascii. Qed.
Print Assumptions C07_equal_fold_ascii.

Theorem C07_contains_fold_windows : forall s sub,
  contains_fold s sub = true <-> exists a w b, s = (a ++ w ++ b)%list /\ fold_case w = fold_case sub.
Proof. exact contains_fold_windows. Qed.
Print Assumptions C07_contains_fold_windows.

Example C07_fold_examples :
  let kelvin9_set := [226; 132; 170; 57; 32; 197; 191; 101; 116]%N in
  let k9_set := [107; 57; 32; 115; 101; 116]%N in
  equal_fold kelvin9_set k9_set = true /\
  equal_fold kelvin9_set [75; 57; 32; 83; 69; 84]%N = true /\
  contains_fold kelvin9_set [107; 57]%N = false /\
  contains_fold kelvin9_set [57; 32; 197; 191]%N = true /\
  contains_fold [77; 121; 32; 75; 105; 116; 99; 104; 101; 110]%N [107; 105; 116; 99; 104; 101; 110]%N = true.
Proof. exact fold_examples. Qed.
Print Assumptions C07_fold_examples.

Theorem C07_visible_iff : forall s p e,
  In e (vis s p) <-> In e (flatv s) /\ keep (cfg s) p e = true.
Proof. exact vis_In. Qed.
Print Assumptions C07_visible_iff.

(** The raw-line pre-match accepts every entry the full match accepts. *)
Theorem C07_quickmatch_over_approximates : forall c e ks,
  forallb (crit_match c e) ks = true -> forallb (crit_quick c e) ks = true.
Proof. exact quick_of_match. Qed.
Print Assumptions C07_quickmatch_over_approximates.

(** No parameter value makes the request crash (in any state at all). *)
Theorem C07_no_panic : forall me bf s q, handle me bf s q <> Panic.
Proof. exact no_panic. Qed.
Print Assumptions C07_no_panic.

(** ** Cursor (older_than) paging

    Vocabulary (Proofs/QLogCursor.v): [wfc me s] = well formed, stamps
    positive, existing files not empty, everything under 2^63 bytes;
    [hist_bytes ops] = bytes the history writes; [cursor_ok s c] = no cursor,
    or the stamp of an entry of the log; [with_older p c] = the request [p]
    with cursor [c]; [chain me bf s p fuel c] = the pages a client gets that
    starts with cursor [c] and, as long as the response carries a non-empty
    [oldest], asks again with it (None = out of fuel / failed request). *)

(** Every history with strictly increasing positive stamps, lines under the
    entry limit and less than 2^63 bytes written leads to such a state. *)
Theorem C07_history_wfc : forall me c ops lo,
  0 <= lo -> hist_ok me lo ops -> hist_bytes ops < 2 ^ 63 -> wfc me (run c ops).
Proof. exact wfc_run. Qed.
Print Assumptions C07_history_wfc.

(** One request with a cursor the API handed out (or none), offset 0, any
    limit >= 1, ANY scan window, any criteria, the cursor entry sitting in
    memory, in the current or in the rotated file: the page is a prefix of
    the visible log under that cursor with at most [limit] entries; either
    the returned cursor is empty and nothing is left, or it is the stamp of a
    log entry older than the request's cursor and what is left of the
    visible log is exactly what is older than it. *)
Theorem C07_cursor_page : forall me bf s p,
  0 < me <= bf -> wfc me s -> cursor_ok s (p_older p) -> p_offset p = 0 -> 1 <= p_limit p ->
  exists es o rest, search me bf s p = Ok es o /\ vis s p = es ++ rest /\ lenZ es <= p_limit p /\
    ((o = 0 /\ rest = []) \/
     (o <> 0 /\ (exists y, In y (flatv s) /\ e_time y = o /\ older_ok p y = true) /\
      rest = filter (fun e => e_time e <? o) (vis s p))).
Proof. exact search_cursor_step. Qed.
Print Assumptions C07_cursor_page.

(** Following the cursors from the first page ends (within one request per
    log entry plus one) and the pages concatenate exactly to the visible log:
    no gap, no duplicate, same order; no page exceeds the limit. *)
Theorem C07_cursor_paging_state : forall me bf s p,
  0 < me <= bf -> wfc me s -> p_older p = None -> p_offset p = 0 -> 1 <= p_limit p ->
  forall fuel, (length (flatv s) < fuel)%nat ->
  exists pages, chain me bf s p fuel None = Some pages /\
    concat pages = vis s p /\ Forall (fun pg => lenZ pg <= p_limit p) pages.
Proof. exact cursor_paging. Qed.
Print Assumptions C07_cursor_paging_state.

(** The same from any cursor the API handed out. *)
Theorem C07_cursor_paging_from : forall me bf s p,
  0 < me <= bf -> wfc me s -> p_offset p = 0 -> 1 <= p_limit p ->
  forall fuel c, cursor_ok s c -> (length (filter (older_b c) (flatv s)) < fuel)%nat ->
  exists pages, chain me bf s p fuel c = Some pages /\
    concat pages = vis s (with_older p c) /\ Forall (fun pg => lenZ pg <= p_limit p) pages.
Proof. exact chain_spec. Qed.
Print Assumptions C07_cursor_paging_from.

(** The property's clause, over histories: after ANY history of add / flush /
    rotate / clear / configuration change / restart with strictly increasing
    stamps, for every page size >= 1, every scan window and every criteria,
    the cursor chain partitions the visible log (which has no duplicates). *)
Theorem C07_cursor_paging : forall me bf c ops lo p,
  0 < me <= bf -> 0 <= lo -> hist_ok me lo ops -> hist_bytes ops < 2 ^ 63 ->
  p_older p = None -> p_offset p = 0 -> 1 <= p_limit p ->
  forall fuel, (length (flatv (run c ops)) < fuel)%nat ->
  exists pages, chain me bf (run c ops) p fuel None = Some pages /\
    concat pages = vis (run c ops) p /\ NoDup (vis (run c ops) p) /\
    Forall (fun pg => lenZ pg <= p_limit p) pages.
Proof. exact cursor_paging_run. Qed.
Print Assumptions C07_cursor_paging.

(** ** The JSON line codec (Model/QLogCodec.v)

    [enc_str] = encoding/json's appendString with HTML escaping (quotes,
    backslash, control characters, <, >, &, U+2028/9, invalid UTF-8);
    [quote s] = the string between quotes; [scan] = json.Decoder.Token as a
    scanner; [utf8_ok] = well-formed UTF-8; [encode] = json.Marshal of a
    logEntry; [decode] = decodeLogEntry; [read_json_value] = readJSONValue;
    [quick_line] = searchCriterion.quickMatch on the raw line (as repaired:
    a raw value holding a backslash is left to the full match);
    [located line p s]: the value readJSONValue finds for key [p] is the
    escaped text of [s] up to its closing quote. *)

(** Every well-formed UTF-8 string, whatever characters it holds, is scanned
    back from its escaped form as exactly that string (induction over the
    string; all escape classes of appendString). *)
Theorem C07_string_roundtrip : forall s ts, utf8_ok s = true ->
  fold_left sstep (quote s) {| toks := ts; md := MBetween |} = {| toks := TStr s :: ts; md := MBetween |}.
Proof. exact scan_quote. Qed.
Print Assumptions C07_string_roundtrip.

Theorem C07_string_scan : forall s, utf8_ok s = true -> scan (quote s) = [TStr s].
Proof. exact scan_string_alone. Qed.
Print Assumptions C07_string_scan.

Example C07_string_roundtrip_example :
  let s := (B "a<b>&""\/"%string ++ [1; 9; 10; 31; 127; 208; 191; 226; 128; 168; 240; 159; 152; 128])%N in
  utf8_ok s = true /\ scan (quote s) = [TStr s] /\ has_bs (quote s) = true.
Proof. exact string_roundtrip_example. Qed.
Print Assumptions C07_string_roundtrip_example.

(** What readJSONValue cuts out of an escaped string (for EVERY string, also
    ill-formed UTF-8): either it holds a backslash, or it is the string. *)
Theorem C07_raw_value : forall s rest, exists r,
  until_quote (enc_str s ++ 34%N :: rest) = Some r /\ (has_bs r = false -> r = s).
Proof. exact until_quote_enc. Qed.
Print Assumptions C07_raw_value.

(** On a line written by json.Marshal with an RFC3339 time text the first
    occurrence of the QH key prefix is the key itself. *)
Theorem C07_host_located : forall e, time_text (slot e sT) = true -> located (encode e) pQH (slot e sQH).
Proof. exact located_qh. Qed.
Print Assumptions C07_host_located.

(** The same for the IP key and for the QH key with ANY time text, and for the
    CID key (when the ClientID is empty the field is omitted and the key
    pattern occurs nowhere in the line).  Reason: in escaped text every quote
    byte is preceded by a backslash ([qesc_enc]), so a key pattern
    quote-NAME-quote-colon-quote cannot start inside a string value or at its
    closing quote, and every other key differs from NAME; the field order is
    fixed.  [rw_numbers_ok e]: the number tokens kept in a rewrite response
    ([RNumber], values that were not strings when a legacy line was decoded)
    consist of number characters, which is all the scanner can deliver and
    all json.Marshal writes; the premise cannot be dropped
    (C07_cid_located_needs_numbers). *)
Theorem C07_host_located_any : forall e, located (encode e) pQH (slot e sQH).
Proof. exact located_qh_any. Qed.
Print Assumptions C07_host_located_any.

Theorem C07_ip_located : forall e, located (encode e) pIP (slot e sIP).
Proof. exact located_ip. Qed.
Print Assumptions C07_ip_located.

Theorem C07_cid_located : forall e, rw_numbers_ok e -> located (encode e) pCID (slot e sCID).
Proof. exact located_cid. Qed.
Print Assumptions C07_cid_located.

Example C07_cid_located_needs_numbers :
  ~ rw_numbers_ok bad_number_entry /\
  slot bad_number_entry sCID = [] /\
  read_json_value (encode bad_number_entry) pCID = B "zzz"%string /\
  ~ located (encode bad_number_entry) pCID (slot bad_number_entry sCID).
Proof. exact located_cid_needs_numbers. Qed.
Print Assumptions C07_cid_located_needs_numbers.

(** Every quote byte of escaped text is preceded by a backslash. *)
Theorem C07_escaped_quotes : forall s, qesc false (enc_str s) = true.
Proof. exact qesc_enc. Qed.
Print Assumptions C07_escaped_quotes.

(** The pre-match on the raw line over-approximates the match on the decoded
    entry WITHOUT any assumption on the characters of time, host, address and
    ClientID.  Statement as first written (round 2a), with an RFC3339 time
    text as premise and no premise on the rewrite numbers: *)
Definition C07_quickmatch_real_lines_statement_v1 : Prop := forall c e v a strict,
  time_text (slot e sT) = true ->
  term_match c (raw_entry (slot e sQH) (slot e sIP) (slot e sCID)) v a strict = true ->
  quick_line c (encode e) (CTerm v a strict) = true.

(** Statement as proved: the time premise is gone (any text), the premise on
    the number tokens of a rewrite response is new and visible (without it
    the CID key pattern can be planted in the line, see above). *)
Definition C07_quickmatch_real_lines_statement : Prop := forall c e v a strict,
  rw_numbers_ok e ->
  term_match c (raw_entry (slot e sQH) (slot e sIP) (slot e sCID)) v a strict = true ->
  quick_line c (encode e) (CTerm v a strict) = true.

Theorem C07_quickmatch_real_lines : forall c e v a strict,
  rw_numbers_ok e ->
  term_match c (raw_entry (slot e sQH) (slot e sIP) (slot e sCID)) v a strict = true ->
  quick_line c (encode e) (CTerm v a strict) = true.
Proof. exact quick_line_real. Qed.
Print Assumptions C07_quickmatch_real_lines.

(** Kept from round 2a: the same with the key positions as premises. *)
Theorem C07_quickmatch_real_lines_partial : forall c e v a strict,
  located (encode e) pQH (slot e sQH) -> located (encode e) pIP (slot e sIP) ->
  located (encode e) pCID (slot e sCID) ->
  term_match c (raw_entry (slot e sQH) (slot e sIP) (slot e sCID)) v a strict = true ->
  quick_line c (encode e) (CTerm v a strict) = true.
Proof. exact quick_line_over_approx. Qed.
Print Assumptions C07_quickmatch_real_lines_partial.

(** Premises satisfiable and the claim not vacuous: an entry without ClientID
    whose time, host, rule text, rule address and a rewrite value all hold
    the text of the CID key pattern (and the host that of the IP key). *)
Example C07_quickmatch_real_lines_example :
  rw_numbers_ok pattern_entry /\
  slot pattern_entry sCID = [] /\
  read_json_value (encode pattern_entry) pCID = [] /\
  read_json_value (encode pattern_entry) pIP = B "1.2.3.4"%string /\
  has_bs (read_json_value (encode pattern_entry) pQH) = true /\
  quick_line no_clients (encode pattern_entry) (CTerm (B "1.2.3.4"%string) [] true) = true.
Proof. exact located_pattern_example. Qed.
Print Assumptions C07_quickmatch_real_lines_example.

(** The pre-match as it was before repair 5f4b967 rejects a line whose
    decoded entry matches (host a&b.example.org, term a&b): the finding. *)
Example C07_quickmatch_unfixed_refuted :
  let k := CTerm (B "a&b"%string) [] false in
  term_match no_clients (raw_entry (slot amp_entry sQH) (slot amp_entry sIP) (slot amp_entry sCID)) (B "a&b"%string) [] false = true /\
  quick_line_unfixed no_clients (encode amp_entry) k = false /\
  quick_line no_clients (encode amp_entry) k = true /\
  snd (decode {| o_time := fun _ => true; o_ip := fun _ => true; o_addr := fun _ => true; o_b64 := fun _ => true |}
              (encode amp_entry)) = amp_entry.
Proof. exact quick_unfixed_refuted. Qed.
Print Assumptions C07_quickmatch_unfixed_refuted.

(** The whole entry through json.Marshal + decodeLogEntry comes back
    unchanged ("returned ... with the client, question, answer, upstream and
    filtering result it was recorded with", file part), for EVERY entry of
    [codec_dom o] (texts well-formed UTF-8 and accepted by the Go parsers the
    decoder calls, integers in int64, rewrite responses non-empty lists of
    strings under distinct uint16 keys; excluded are the two by-design
    conversions of the decoder: reason RewrittenAutoHosts with an IPList is
    turned into a rewrite result, a rewrite result with neither response nor
    code is written as {} and read back as absent).  No normalisation is
    needed inside this domain: ill-formed UTF-8 (replaced by U+FFFD) is
    outside it.  Proof: [scan (encode e) = t_encode e] (the scanner is
    compositional over strings, numbers, the literal true, fields, joined
    lists with omitted members, objects and arrays; decimal texts of all
    int64 / uint16 values are read back by parse_int / parse_u16), then the
    token decoder over [t_encode e]: every key handler consumes exactly the
    value written and returns to the key loop; IPList, Rules and the Response
    map by induction with the decoded prefix as invariant. *)
Definition C07_codec_roundtrip_statement : Prop :=
  forall o e, codec_dom o e -> decode o (encode e) = (false, e).

Theorem C07_codec_roundtrip : forall o e, codec_dom o e -> decode o (encode e) = (false, e).
Proof. exact codec_roundtrip. Qed.
Print Assumptions C07_codec_roundtrip.

(** Both halves together: an entry of the codec domain written to a file
    line is seen again by a search whose term it satisfies: the pre-match on
    the raw line lets the line through and the decoder returns the entry
    itself (on which the full match then runs). *)
Theorem C07_file_line_found : forall o c e v a strict, codec_dom o e ->
  term_match c (raw_entry (slot e sQH) (slot e sIP) (slot e sCID)) v a strict = true ->
  quick_line c (encode e) (CTerm v a strict) = true /\ decode o (encode e) = (false, e).
Proof. exact file_line_found. Qed.
Print Assumptions C07_file_line_found.

(** The two layers separately. *)
Theorem C07_scan_encode : forall e, texts_ok e -> scan (encode e) = t_encode e.
Proof. exact scan_encode. Qed.
Print Assumptions C07_scan_encode.

Theorem C07_decode_tokens : forall o e, codec_dom o e ->
  fold_left (dstep o) (t_encode e) (DTop, blank) = (DTop, e).
Proof. exact dec_tokens. Qed.
Print Assumptions C07_decode_tokens.

(** strconv's decimal text of every int64 / uint16 is parsed back. *)
Theorem C07_int_roundtrip : forall z, (- 2 ^ 63 <= z < 2 ^ 63) -> parse_int (dec_bytes z) = Some z.
Proof. exact parse_int_dec. Qed.
Print Assumptions C07_int_roundtrip.

Theorem C07_u16_roundtrip : forall z, (0 <= z < 65536) -> parse_u16 (dec_bytes z) = Some z.
Proof. exact parse_u16_dec. Qed.
Print Assumptions C07_u16_roundtrip.

Example C07_codec_roundtrip_example :
  codec_dom all_true rich_entry /\
  decode all_true (encode rich_entry) = (false, rich_entry) /\
  has_bs (read_json_value (encode rich_entry) pQH) = true.
Proof. exact (conj rich_entry_dom (conj (proj1 codec_roundtrip_example) (proj1 (proj2 codec_roundtrip_example)))). Qed.
Print Assumptions C07_codec_roundtrip_example.

(** ** API layer: "returned with the client it was recorded with", over
    histories with requests and anonymisation changes in between
    (Model/QLogServe.v). *)

(** Serving a request never changes the log or its configuration: the state
    after the request is the state before it, for every state (reachable or
    not), every anonymiser and every request. *)
Theorem C07_search_is_readonly : forall me bf t s q, fst (serve me bf t s q) = s.
Proof. exact serve_readonly. Qed.
Print Assumptions C07_search_is_readonly.

(** Hence a request served anywhere in a history can be dropped from it, and
    the log after a history is the log after its operations alone (requests
    and switch changes erased). *)
Theorem C07_served_request_erasable : forall me bf t c pre q post,
  qrun me bf t c (pre ++ SServe q :: post) = qrun me bf t c (pre ++ post).
Proof. exact serve_erasable. Qed.
Print Assumptions C07_served_request_erasable.

Theorem C07_requests_and_switch_erase : forall me bf t c ops,
  st (qrun me bf t c ops) = run c (plain ops) /\ anon (qrun me bf t c ops) = anon_after false ops.
Proof. exact (fun me bf t c ops => conj (qrun_erases me bf t c ops) (qrun_switch me bf t c ops)). Qed.
Print Assumptions C07_requests_and_switch_erase.

(** Whatever the parameters (cursor, paging, scan window, criteria), a search
    returns only entries of the log (no well-formedness premise). *)
Theorem C07_search_returns_log_entries : forall me bf s p es o,
  search me bf s p = Ok es o -> forall e, In e es -> In e (flat s).
Proof. exact search_In. Qed.
Print Assumptions C07_search_returns_log_entries.

(** After ANY history of operations, served requests and anonymisation
    changes, every row of a response is an entry that an Add of the history
    recorded, shown with exactly the address it was recorded with when the
    switch is off at the time of the request, and with its mask when it is on:
    earlier requests and earlier positions of the switch leave no trace. *)
Theorem C07_client_as_recorded : forall me bf t c ops q rows old,
  snd (serve me bf t (qrun me bf t c ops) q) = ROk rows old ->
  forall i cl, In (i, cl) rows ->
  exists e, (In (SOp (OAdd e)) ops \/ In (SOp (OAddAsync e)) ops) /\ i = e_id e /\
            cl = if anon_after false ops then mask_of t (e_ip e) else e_ip e.
Proof. exact client_as_recorded. Qed.
Print Assumptions C07_client_as_recorded.

(** The scenario: recorded with the switch off, switch on, one request served,
    (switch off again,) another request. *)
Example C07_toggle_example :
  let h := [SOp (OAdd ex_entry); SAnon true; SServe ex_all] in
  snd (serve max_entry_size buffer_size ex_tbl (qrun max_entry_size buffer_size ex_tbl ex_cfg h) ex_all)
    = ROk [(1%N, ex_masked)] 1000 /\
  snd (serve max_entry_size buffer_size ex_tbl (qrun max_entry_size buffer_size ex_tbl ex_cfg (h ++ [SAnon false])) ex_all)
    = ROk [(1%N, ex_ip)] 1000.
Proof. exact toggle_example. Qed.
Print Assumptions C07_toggle_example.

(** ** The periodic rotation check (Model/QLogRotate.v): decision and rename
    are two steps with no file lock held; the DNS path may record and flush
    in between. *)

(** Run as a whole, the check rotates exactly when the current file exists and
    its first record is at least the interval old; renaming a missing file
    does nothing, so the code as it is and the code with the early return on a
    missing file agree. *)
Theorem C07_check_and_rotate : forall m ivl now s,
  check_and_rotate m ivl now s = if due m ivl now s then rotate s else s.
Proof. exact check_and_rotate_eq. Qed.
Print Assumptions C07_check_and_rotate.

Theorem C07_check_and_rotate_atomic_same : forall ivl now s,
  check_and_rotate true ivl now s = check_and_rotate false ivl now s.
Proof. exact check_and_rotate_same. Qed.
Print Assumptions C07_check_and_rotate_atomic_same.

(** With the early return (draft fix 19): whatever the DNS path records and
    flushes between decision and rename, a file that gets renamed was due. *)
Theorem C07_rotation_only_when_due_fixed : forall s ivl now mid,
  forallb dns_op mid = true ->
  renamed_is_due (rrun false s (RCheck ivl now :: map RPlain mid)).
Proof. exact rotation_only_when_due_fixed. Qed.
Print Assumptions C07_rotation_only_when_due_fixed.

(** REFUTED for the code as it was before 011b417 ([missing_is_old] = true;
    the finding was reproduced against the real code under strace delay
    injection and repaired by the lead with the early return): the check finds no querylog.json and goes
    on; one DNS request records and flushes (mem_size 1); the rename moves that
    5 ns old file over querylog.json.1: record 2, 15 ns old against an interval
    of 1000, is gone without a clear.  The same history with the early return
    keeps it. *)
Theorem C07_rotation_only_when_due_refuted :
  forallb dns_op w_mid = true /\
  ~ renamed_is_due (rrun true w_state (RCheck 1000 1020 :: map RPlain w_mid)) /\
  has_id 2 (flat w_state) = true /\ 1020 < e_time w_a2 + 1000 /\
  has_id 2 (flat (rs (rrun true w_state (RCheck 1000 1020 :: map RPlain w_mid ++ [RRename])))) = false /\
  has_id 2 (flat (rs (rrun false w_state (RCheck 1000 1020 :: map RPlain w_mid ++ [RRename])))) = true.
Proof. exact rotation_only_when_due_refuted. Qed.
Print Assumptions C07_rotation_only_when_due_refuted.

(** * Round 4: client names over the registry of C04; the status table

    Model/QLogClients.v mirrors queryLog.client (search.go), home's
    findMultiple / clientOrArtificial and client.Storage.FindLoose on the
    registry of Model/ClientIndex.v (C04).  [clients_table rg pt texts] is
    the FindClient table of Model/QLog.v COMPUTED from the registry for the
    identifier texts of a case; [qlog_client rg pt e] is the owner of entry
    [e]; [covered texts e]: the ClientID and address texts of [e] are among
    [texts]. *)

(** The table lookup of the log model is the registry lookup. *)
Theorem C07_client_table_is_registry : forall rg pt texts c e,
  clients c = clients_table rg pt texts -> covered texts e ->
  find_client c e = qlog_client rg pt e.
Proof. exact find_client_registry. Qed.
Print Assumptions C07_client_table_is_registry.

(** A search term selects exactly the visible entries that carry it in host,
    ClientID or address, or whose OWNER has it in its name, newest first;
    wherever the entries sit (memory, current file, rotated file). *)
Theorem C07_name_term_selects_owner : forall me bf s p rg pt texts v a strict,
  0 < me <= bf -> wf me s ->
  clients (cfg s) = clients_table rg pt texts ->
  (forall e, In e (flatv s) -> covered texts e) ->
  p_older p = None -> p_offset p = 0 -> p_crits p = [CTerm v a strict] ->
  0 < p_limit p -> lenZ (flatv s) <= p_limit p ->
  (p_scan p <= 0 \/ lenZ (on_disk s) <= p_scan p) ->
  exists o, search me bf s p =
    Ok (filter (selected rg pt (cfg s) v a strict) (rev (flatv s))) o.
Proof. exact name_term_selects_owner. Qed.
Print Assumptions C07_name_term_selects_owner.

(** A term found in no host, ClientID or address: exactly the entries whose
    owner's name matches. *)
Theorem C07_pure_name_term : forall me bf s p rg pt texts v a strict,
  0 < me <= bf -> wf me s ->
  clients (cfg s) = clients_table rg pt texts ->
  (forall e, In e (flatv s) -> covered texts e) ->
  (forall e, In e (flatv s) -> fields_match e v a strict = false) ->
  p_older p = None -> p_offset p = 0 -> p_crits p = [CTerm v a strict] ->
  0 < p_limit p -> lenZ (flatv s) <= p_limit p ->
  (p_scan p <= 0 \/ lenZ (on_disk s) <= p_scan p) ->
  exists o, search me bf s p =
    Ok (filter (fun e => negb (hidden rg pt (cfg s) e) && name_match (owner_name rg pt e) v strict)
               (rev (flatv s))) o.
Proof. exact pure_name_term. Qed.
Print Assumptions C07_pure_name_term.

(** Who the owner is: the ClientID decides when the registry knows it ... *)
Theorem C07_owner_client_id_first : forall rg pt e c,
  is_empty (e_cid e) = false ->
  client_or_artificial rg (e_cid e) (parse_of pt (e_cid e)) = Some c ->
  qlog_client rg pt e = Some c.
Proof. exact owner_by_client_id. Qed.
Print Assumptions C07_owner_client_id_first.

(** ... and an entry without ClientID, or with one nobody owns, belongs to the
    owner of its ADDRESS (the dimension of seeded change C07-G). *)
Theorem C07_owner_falls_to_address : forall rg pt e,
  (is_empty (e_cid e) = true \/ client_or_artificial rg (e_cid e) (parse_of pt (e_cid e)) = None) ->
  is_empty (e_ip e) = false ->
  qlog_client rg pt e = client_or_artificial rg (e_ip e) (parse_of pt (e_ip e)).
Proof. exact owner_by_address. Qed.
Print Assumptions C07_owner_falls_to_address.

(** Storage.FindLoose against the request-time lookup of C04. *)
Theorem C07_find_loose_is_acf : forall rg id a,
  find_loose rg a id (Some a) =
  match ClientIndex.acf_find (rg_ix rg) (dhcp_of rg) id a with
  | Some u => Some u
  | None => match dhcp_of rg a with Some _ => None | None => find_by_ip_without_zone (rg_ix rg) a end
  end.
Proof. exact find_loose_acf. Qed.
Print Assumptions C07_find_loose_is_acf.

(** On a consistent registry (every registry reached by Add / Update /
    RemoveByName: C04_index_consistent) the persistent owner of an address
    follows C04's precedence: ClientID, exact address, longest containing
    prefix, lease MAC. *)
Theorem C07_find_loose_precedence : forall rg id a u,
  Proofs.ClientIndex.Inv (rg_ix rg) ->
  ClientIndex.acf_find (rg_ix rg) (dhcp_of rg) id a = Some u ->
  find_loose rg a id (Some a) = Some u /\
  Proofs.ClientIndex.resolves (rg_ix rg) (dhcp_of rg) id a (Some u).
Proof. exact find_loose_precedence. Qed.
Print Assumptions C07_find_loose_precedence.

Theorem C07_owner_of_client_id : forall rg id u,
  Proofs.ClientIndex.Inv (rg_ix rg) -> dhcp_of rg zero_addr = None ->
  (find_loose rg zero_addr id None = Some u <->
   Proofs.ClientIndex.owner_of (rg_ix rg) ClientIndex.c_cids id u).
Proof. exact find_loose_client_id. Qed.
Print Assumptions C07_owner_of_client_id.

Theorem C07_zone_less_owner : forall rg a u,
  Proofs.ClientIndex.Inv (rg_ix rg) -> find_by_ip_without_zone (rg_ix rg) a = Some u ->
  snd a = [] /\ exists z, Proofs.ClientIndex.owner_of (rg_ix rg) ClientIndex.c_ips (fst a, z) u.
Proof. exact find_by_ip_without_zone_owner. Qed.
Print Assumptions C07_zone_less_owner.

(** Premises are satisfiable: Laptop owns 192.168.1.5, Phone the ClientID
    "ph"; an entry from that address with an ad-hoc ClientID is found under
    "apt", the one with Phone's ClientID is not. *)
Theorem C07_owner_example :
  let e1 := Build_entry 1 10 100 [97%N] Ex.ip5 [97;100;104;111;99]%N 0 false in
  let e2 := Build_entry 2 20 100 [98%N] Ex.ip5 [112;104]%N 0 false in
  let texts := [Ex.ip5; [97;100;104;111;99]%N; [112;104]%N] in
  let c := Build_config true true 4 [] (clients_table Ex.rg Ex.pt texts) in
  let s := run c [OAdd e1; OAdd e2] in
  Proofs.ClientIndex.Inv (rg_ix Ex.rg) /\
  owner_name Ex.rg Ex.pt e1 = [76;97;112;116;111;112]%N /\
  owner_name Ex.rg Ex.pt e2 = [80;104;111;110;101]%N /\
  (forall e, In e (flatv s) -> covered texts e) /\
  search max_entry_size buffer_size s (Build_params None 10 0 0 [CTerm [97;112;116]%N [] false]) = Ok [e1] 10.
Proof. exact owner_example. Qed.
Print Assumptions C07_owner_example.

(** The response_status table: every cell (value x reason x IsFiltered) of
    searchcriterion.go ctFilteringStatusCase is the cell of the table that
    spells out the documentation of the values ([status_table]). *)
Theorem C07_status_table : forall code r f,
  0 <= code <= 9 -> In r reason_names ->
  status_match code r f =
  row_admits (nth (Z.to_nat code) status_table (Build_status_row (Some []) false false)) r f.
Proof. exact status_table_spec. Qed.
Print Assumptions C07_status_table.

(** blocked / whitelisted / processed exclude each other for every reason
    number and flag; none holds only for a block-list / blocked-service reason
    without IsFiltered ... *)
Theorem C07_status_partition : forall r f,
  let b := status_match 2 r f in let w := status_match 6 r f in let p := status_match 9 r f in
  (b && w = false) /\ (b && p = false) /\ (w && p = false) /\
  (b || w || p = negb (reason_in r [3; 8] && negb f)).
Proof. exact status_partition. Qed.
Print Assumptions C07_status_partition.

(** ... so with IsFiltered set exactly for the Filtered* reasons every entry is
    in exactly one of the three. *)
Theorem C07_status_partition_consistent : forall r f,
  f = ((3 <=? r) && (r <=? 8)) ->
  xorb (xorb (status_match 2 r f) (status_match 6 r f)) (status_match 9 r f) = true /\
  (status_match 2 r f && status_match 6 r f = false) /\
  (status_match 2 r f && status_match 9 r f = false) /\
  (status_match 6 r f && status_match 9 r f = false).
Proof. exact status_partition_consistent. Qed.
Print Assumptions C07_status_partition_consistent.

Theorem C07_status_inclusions : forall r f,
  (status_match 3 r f = true -> status_match 2 r f = true) /\
  (status_match 2 r f = true -> status_match 1 r f = true) /\
  (status_match 4 r f = true -> status_match 1 r f = true /\ status_match 9 r f = true) /\
  (status_match 5 r f = true -> status_match 1 r f = true /\ status_match 9 r f = true) /\
  (status_match 8 r f = true -> status_match 1 r f = true /\ status_match 9 r f = true) /\
  (status_match 6 r f = true -> status_match 1 r f = true) /\
  (status_match 7 r f = true -> status_match 1 r f = true /\ status_match 9 r f = true) /\
  (forall code, status_match code r f = true -> status_match 0 r f = true).
Proof. exact status_inclusions. Qed.
Print Assumptions C07_status_inclusions.

(** ** Push order and stamp order (round 5; Proofs/QLogOrder.v)

    The theorems above speak of histories whose recorded entries carry
    strictly increasing stamps IN PUSH ORDER ([hist_ok]).  That is not an
    invariant of the operations by themselves: the stamp of an [OAdd] is an
    input.  Since 3418b11 [Add] reads the clock after it has locked the buffer
    ([stamp_ops] / [run_locked], Model/QLog.v), so with clock readings that
    strictly rise the hypothesis holds whatever the callers do ... *)
Theorem C07_stamp_under_lock_orders : forall me ops clock lo,
  rising lo clock -> (length (adds ops) <= length clock)%nat ->
  Forall (len_ok me) (adds ops) -> hist_ok me lo (stamp_ops clock ops).
Proof. exact stamp_ops_ok. Qed.
Print Assumptions C07_stamp_under_lock_orders.

Theorem C07_locked_history_wf : forall me c clock ops lo,
  rising lo clock -> (length (adds ops) <= length clock)%nat -> Forall (len_ok me) (adds ops) ->
  wf me (run_locked c clock ops).
Proof. exact locked_wf. Qed.
Print Assumptions C07_locked_history_wf.

(** ... and the cursor chain partitions the visible log, for ANY stamps the
    callers of Add brought along and any interleaving of their calls. *)
Theorem C07_locked_cursor_paging : forall me bf c clock ops lo p,
  0 < me <= bf -> 0 <= lo -> rising lo clock -> (length (adds ops) <= length clock)%nat ->
  Forall (len_ok me) (adds ops) -> hist_bytes ops < 2 ^ 63 ->
  p_older p = None -> p_offset p = 0 -> 1 <= p_limit p ->
  forall fuel, (length (flatv (run_locked c clock ops)) < fuel)%nat ->
  exists pages, chain me bf (run_locked c clock ops) p fuel None = Some pages /\
    concat pages = vis (run_locked c clock ops) p /\ NoDup (vis (run_locked c clock ops) p) /\
    Forall (fun pg => lenZ pg <= p_limit p) pages.
Proof. exact locked_cursor_paging. Qed.
Print Assumptions C07_locked_cursor_paging.

(** Premises satisfiable: the interleaving old / late takes its stamp / whole
    Add of newest / late is pushed, with the clock read under the lock. *)
Theorem C07_locked_example :
  let s := run_locked wit_cfg [11; 12; 13] wit_ops in
  map (fun e => (e_id e, e_time e)) (flat s) = [(1%N, 11); (2%N, 12); (3%N, 13)] /\
  option_map (map (map e_id)) (chain max_entry_size buffer_size s (Build_params None 1 0 0 []) 4 None) =
    Some [[3]; [2]; [1]; []]%N.
Proof. exact locked_example. Qed.
Print Assumptions C07_locked_example.

(** The code as it was before 3418b11 (stamp taken in newLogEntry, outside the
    lock: push order independent of stamp order).  REFUTED, with pairwise
    distinct positive stamps: recorded 1 (10), 2 (30), 3 (20, pushed last).
    Cursor pages of one from memory return 3, 1; entry 2 is never returned. *)
Theorem C07_cursor_paging_needs_stamp_order_refuted :
  exists c ops p fuel pages e,
    hist_distinct max_entry_size ops /\ p_older p = None /\ p_offset p = 0 /\ 1 <= p_limit p /\
    (length (flatv (run c ops)) < fuel)%nat /\
    chain max_entry_size buffer_size (run c ops) p fuel None = Some pages /\
    In e (vis (run c ops) p) /\ ~ In e (concat pages).
Proof. exact cursor_paging_any_order_refuted. Qed.
Print Assumptions C07_cursor_paging_needs_stamp_order_refuted.

(** After the flush (file lines 10, 30, 20), pages of two: 2 3, then the end
    of the log; 1 is never returned (the timestamp bisection of C20 runs over
    stamps that are not sorted). *)
Theorem C07_cursor_paging_file_needs_stamp_order_refuted :
  exists c ops p fuel pages e,
    hist_distinct max_entry_size ops /\ p_older p = None /\ p_offset p = 0 /\ 1 <= p_limit p /\
    buf (run c ops) = [] /\
    (length (flatv (run c ops)) < fuel)%nat /\
    chain max_entry_size buffer_size (run c ops) p fuel None = Some pages /\
    In e (vis (run c ops) p) /\ ~ In e (concat pages).
Proof. exact cursor_paging_file_any_order_refuted. Qed.
Print Assumptions C07_cursor_paging_file_needs_stamp_order_refuted.

(** Offset pages of one at offsets 0, 1, 2 return 3, 3, 1 (the newest-first
    sequence is 2 3 1): the cut to offset+limit runs before the sort. *)
Theorem C07_offset_paging_needs_stamp_order_refuted :
  exists c ops, hist_distinct max_entry_size ops /\
    map (fun off => match search max_entry_size buffer_size (run c ops) (Build_params None 1 off 0 []) with
                    | Ok es _ => map e_id es | _ => [] end) [0; 1; 2] = [[3]; [3]; [1]]%N /\
    map e_id (sort_desc (vis (run c ops) (Build_params None 1 0 0 []))) = [2; 3; 1]%N.
Proof. exact offset_paging_any_order_refuted. Qed.
Print Assumptions C07_offset_paging_needs_stamp_order_refuted.

(** The assumption that is left: two clock readings under the lock are never
    equal (and the clock does not step back).  REFUTED without it: stamps 10,
    20, 20, pages of one return 3, 1; "older than" is strict. *)
Theorem C07_cursor_paging_equal_stamps_refuted :
  exists c ops p fuel pages e,
    p_older p = None /\ p_offset p = 0 /\ 1 <= p_limit p /\
    (length (flatv (run c ops)) < fuel)%nat /\
    chain max_entry_size buffer_size (run c ops) p fuel None = Some pages /\
    In e (vis (run c ops) p) /\ ~ In e (concat pages).
Proof. exact cursor_paging_equal_stamps_refuted. Qed.
Print Assumptions C07_cursor_paging_equal_stamps_refuted.

Theorem C07_stamp_order_not_invariant_refuted :
  exists c ops, hist_distinct max_entry_size ops /\ ~ wf max_entry_size (run c ops).
Proof. exact stamp_order_not_invariant_refuted. Qed.
Print Assumptions C07_stamp_order_not_invariant_refuted.

(** What holds for EVERY state, sorted or not (no well-formedness premise on
    the stamps).  A request without cursor returns: cut to offset+limit in
    reverse push order, sort, drop the offset ... *)
Theorem C07_search_any_push_order : forall me bf s p,
  0 < me <= bf -> Forall (len_ok me) (on_disk s) -> p_older p = None ->
  0 < p_limit p -> 0 <= p_offset p ->
  (p_scan p <= 0 \/ lenZ (on_disk s) <= p_scan p) ->
  exists o, search me bf s p = Ok (page_any s p) o.
Proof. exact search_any_order. Qed.
Print Assumptions C07_search_any_push_order.

(** ... so the unpaged listing holds every visible entry exactly once, newest
    first, whatever the push order. *)
Theorem C07_listing_any_push_order : forall me bf s p,
  0 < me <= bf -> Forall (len_ok me) (on_disk s) -> p_older p = None -> p_offset p = 0 ->
  0 < p_limit p -> lenZ (flatv s) <= p_limit p ->
  (p_scan p <= 0 \/ lenZ (on_disk s) <= p_scan p) ->
  exists o, search me bf s p = Ok (sort_desc (vis s p)) o /\
            Permutation.Permutation (sort_desc (vis s p)) (vis s p) /\ desc (sort_desc (vis s p)).
Proof. exact listing_any_order. Qed.
Print Assumptions C07_listing_any_push_order.

(** Every page of every request is newest-first, and the cursor it hands out
    is the stamp of its oldest entry. *)
Theorem C07_page_newest_first_any_push_order : forall me bf s p es o,
  search me bf s p = Ok es o ->
  desc es /\ (es <> [] -> o = e_time (last es dflt) /\ forall y, In y es -> o <= e_time y).
Proof. exact page_desc. Qed.
Print Assumptions C07_page_newest_first_any_push_order.

(** The clause seeded C07-J breaks: a page served from memory only (no file)
    is the sorted cut of the buffer, newest-first whatever the push order. *)
Theorem C07_memory_page_sorted_any_push_order : forall me bf s p,
  cur s = None -> rot s = None -> 0 < p_limit p -> 0 <= p_offset p ->
  exists o, search me bf s p =
              Ok (skipnZ (p_offset p) (sort_desc (firstnZ (p_offset p + p_limit p) (search_memory s p)))) o /\
            desc (skipnZ (p_offset p) (sort_desc (firstnZ (p_offset p + p_limit p) (search_memory s p)))).
Proof. exact memory_page_sorted. Qed.
Print Assumptions C07_memory_page_sorted_any_push_order.

Theorem C07_memory_page_sort_matters :
  let c := Build_config true true 100 [] [] in
  let e i t := Build_entry i t 100 [97%N] [49%N] [] 0 false in
  let s := run c [OAdd (e 1%N 10); OAdd (e 2%N 30); OAdd (e 3%N 20)] in
  map e_id (search_memory s (Build_params None 5 0 0 [])) = [3; 2; 1]%N /\
  search max_entry_size buffer_size s (Build_params None 5 0 0 []) = Ok [e 2%N 30; e 3%N 20; e 1%N 10] 10.
Proof. exact memory_page_sort_matters. Qed.
Print Assumptions C07_memory_page_sort_matters.

(** Every entry of a page is strictly older than the request's cursor ... *)
Theorem C07_page_under_cursor_any_push_order : forall me bf s p es o c,
  search me bf s p = Ok es o -> p_older p = Some c -> forall y, In y es -> e_time y < c.
Proof. exact page_under_cursor. Qed.
Print Assumptions C07_page_under_cursor_any_push_order.

(** ... hence a client that follows the cursors never gets an entry twice and
    gets the pages in newest-first order as a whole, whatever the push order
    and the state of the files (as long as no page before the last is empty,
    which only a scan window cut short can cause).  Gaps are what stamp order
    is needed for. *)
Theorem C07_cursor_pages_never_repeat_any_push_order : forall me bf s p fuel c pages,
  chain me bf s p fuel c = Some pages -> Forall (fun pg => pg <> []) (removelast pages) ->
  (forall pg, In pg pages -> forall y, In y pg -> older_b c y = true) /\ sep pages.
Proof. exact chain_sep. Qed.
Print Assumptions C07_cursor_pages_never_repeat_any_push_order.

(** ** The request parameters and the scan window (round 7; Proofs/QLogParams.v)

    [parse_with scan] is parseSearchParams with the rule that lifts the
    50000-line cap as a parameter; [parse] / [handle] are the instance the code
    has now: the cap is lifted for every request that carries a valid offset,
    zero included ([scan_now]). *)
Theorem C07_parse_is_parse_with : forall q, parse q = parse_with (scan_now default_scan) q.
Proof. exact parse_is_parse_with. Qed.
Print Assumptions C07_parse_is_parse_with.

(** Without a cursor the file part of a search is [collect] over every line
    of the files, newest first, whatever the scan window. *)
Theorem C07_search_files_collect : forall me bf s p,
  0 < me <= bf -> Forall (len_ok me) (on_disk s) -> p_older p = None ->
  search_files me bf s p =
    collect (cfg s) p (p_offset p + p_limit p) (map Some (rev (on_disk s))) 0 0 0.
Proof. exact search_files_collect. Qed.
Print Assumptions C07_search_files_collect.

(** A request that carries an offset, ZERO INCLUDED, and no cursor returns
    exactly [limit] entries behind the first [offset] ones of the visible log
    under its criteria, for every cap and every state: however many lines
    that do not match lie in front of the matches ... *)
Theorem C07_offset_paging_explicit_zero : forall me bf cap s q p off,
  0 < me <= bf -> wf me s -> parse_with (scan_now cap) q = Some p ->
  q_offset q = Some off -> q_older q = None -> 0 < p_limit p ->
  exists o, handle_with (scan_now cap) me bf s q =
              Ok (firstnZ (p_limit p) (skipnZ off (vis s p))) o.
Proof. exact offset_paging_explicit. Qed.
Print Assumptions C07_offset_paging_explicit_zero.

(** ... so the pages at offsets 0, limit, 2 limit, ... partition it. *)
Theorem C07_offset_pages_tile : forall s p off lim, 0 <= off -> 0 <= lim ->
  firstnZ lim (skipnZ off (vis s p)) ++ skipnZ (off + lim) (vis s p) = skipnZ off (vis s p).
Proof. exact offset_pages_tile. Qed.
Print Assumptions C07_offset_pages_tile.

(** REFUTED with the cap kept for an explicit offset 0 (seeded C07-N, the cap
    as a parameter): cap 2, one matching record behind three newer ones that
    do not match: offset=0 returns nothing (cursor 30), offset=1 starts behind
    the match; the code as it is returns it. *)
Theorem C07_offset_paging_cap_kept_refuted :
  exists cap s p, wf max_entry_size s /\ buf s = [] /\
    parse_with (scan_pos cap) (wit_req 0) = Some p /\
    map e_id (vis s p) = [1%N] /\
    handle_with (scan_pos cap) max_entry_size buffer_size s (wit_req 0) = Ok [] 30 /\
    handle_with (scan_pos cap) max_entry_size buffer_size s (wit_req 1) = Ok [] 0 /\
    handle_with (scan_now cap) max_entry_size buffer_size s (wit_req 0) = Ok [QLogParams.wit_e 1 10 wit_rare] 10.
Proof. exact offset_paging_cap_kept_refuted. Qed.
Print Assumptions C07_offset_paging_cap_kept_refuted.

(** C07 (statements only; proofs in Proofs/QLog.v). *)
From Coq Require Import ZArith List.
From AGH Require Import Model.QLogFile Model.QLog.
Import ListNotations.
Local Open Scope Z_scope.

Theorem C07_placeholder_sanity : run (Build_config true true 2 [] []) [] = init (Build_config true true 2 [] []).
Proof. reflexivity. Qed.
Print Assumptions C07_placeholder_sanity.

(** C09: statistics totals equal the queries counted inside the retention
    window.  Only statements here; proofs live in Proofs/Stats.v.

    Reading guide.  [run (init id ms en) h] is the model's state after New on
    a fresh file (clock [id], limit [ms] milliseconds, enabled [en]) followed
    by the history [h] of updates, flushes, restarts, clears and limit
    changes.  [grun (ginit ..) h] runs the same history keeping the ghost
    record beside the state: [g_ev g i k] = number of accepted updates counted
    while hour [i] was current, since the last clear, for counter [k] (the
    total or one of the five result categories); [g_low g] = the largest
    [id - limit] at any flush/restart since the last clear (hours [<= g_low]
    have been outside the window at a flush or restart); [g_raised g] = the
    limit was raised since the last clear.  [rep k s] is what the API reports
    for counter [k] (num_dns_queries, num_blocked_filtering, ...); [wsum s f]
    sums [f] over the hours (cur - limit, cur].  [wf_hist]: the hour clock
    never goes back and fits uint32, and the three steps of a reset ([OClearClose],
    [OClearReopen], [OClearFinish]: clear() taken apart) come in their order
    with only updates and flushes between them; [init_ok]: first hour >= 8762
    (so that hour - limit - 1 does not wrap; real hours are about 5e5) and a
    valid limit (1 hour .. 365 days).  What is stored and what is read is the
    serialised unit ([ser]): name maps cut to their 100 largest counts, time
    sum replaced by the whole-microsecond average times the count. *)
From Coq Require Import ZArith List Bool.
From AGH Require Import Model.Stats Model.StatsShutdown Proofs.Stats Proofs.StatsExt Proofs.StatsTops Proofs.StatsCut
  Proofs.StatsShutdown Proofs.StatsCut Proofs.StatsUpstreams Model.StatsWorker Proofs.StatsWorker.
From AGH Require Base.Conc Proofs.StatsConc.
Import ListNotations.
Local Open Scope Z_scope.

(** (a) never more than the accepted, un-cleared updates whose hour lies in the
    current window; (b) at least those of hours that have been inside the
    window at every flush and restart since; equal outright while the limit has
    not been raised. *)
Theorem C09_conservation : forall id ms en h k,
  init_ok id ms -> wf_hist id h ->
  let g := grun (ginit id ms en) h in
  let s := run (init id ms en) h in
  rep k s <= wsum s (fun i => g_ev g i k) /\
  wsum s (fun i => if i <=? g_low g then 0 else g_ev g i k) <= rep k s /\
  (g_raised g = false -> rep k s = wsum s (fun i => g_ev g i k)).
Proof. exact conservation. Qed.
Print Assumptions C09_conservation.

(** [rep] is what get_data returns. *)
Theorem C09_rep_is_api : forall s,
  d_num (get_data s) = rep CTotal s /\ num_nf s = rep (CCat NF) s /\
  d_num_f (get_data s) = rep (CCat F) s /\ d_num_sb (get_data s) = rep (CCat SB) s /\
  d_num_ss (get_data s) = rep (CCat SS) s /\ d_num_p (get_data s) = rep (CCat P) s.
Proof. exact rep_get_data. Qed.
Print Assumptions C09_rep_is_api.

(** The refinement invariant of Appendix D holds in every reachable state:
    the current unit holds the events of its hour, every stored unit below it
    holds the events of its hour, a missing unit means no events or an hour
    that was outside the window at a flush/restart ([i_db]); nothing is stored
    or counted above the current hour. *)
Theorem C09_invariant : forall id ms en h,
  init_ok id ms -> wf_hist id h -> Inv (grun (ginit id ms en) h).
Proof. exact reachable_inv. Qed.
Print Assumptions C09_invariant.

(** Per hour of the window: reported = counted, or nothing for a lost hour. *)
Theorem C09_per_hour : forall g i k,
  Inv g -> i <= cur_id (g_st g) ->
  (if i <=? g_low g then 0 else g_ev g i k) <= proj k (unit_of (g_st g) i) <= g_ev g i k.
Proof. exact hour_bounds. Qed.
Print Assumptions C09_per_hour.

(** Each accepted update increments the total and exactly one category. *)
Theorem C09_one_category : forall s e,
  accepts s e = true -> 0 <= e_res e ->
  exists c,
    u_total (cur (update s e)) = u_total (cur s) + 1 /\
    u_cat c (cur (update s e)) = u_cat c (cur s) + 1 /\
    (forall c', c' <> c -> u_cat c' (cur (update s e)) = u_cat c' (cur s)) /\
    cur_id (update s e) = cur_id s /\ db (update s e) = db s.
Proof. exact update_one_category. Qed.
Print Assumptions C09_one_category.

(** ... hence the reported total is the sum of the five category totals. *)
Theorem C09_one_category_reported : forall id ms en h,
  init_ok id ms -> wf_hist id h ->
  let s := run (init id ms en) h in
  d_num (get_data s) =
    num_nf s + d_num_f (get_data s) + d_num_sb (get_data s) + d_num_ss (get_data s) + d_num_p (get_data s).
Proof. exact one_category_reported. Qed.
Print Assumptions C09_one_category_reported.

(** Hourly series sum to the totals (any state) and have one point per hour. *)
Theorem C09_hourly_sums : forall s,
  d_days (get_data s) = false ->
  zsum (d_dns (get_data s)) = d_num (get_data s) /\
  zsum (d_blocked (get_data s)) = d_num_f (get_data s) /\
  zsum (d_sb (get_data s)) = d_num_sb (get_data s) /\
  zsum (d_par (get_data s)) = d_num_p (get_data s).
Proof. exact hourly_sums. Qed.
Print Assumptions C09_hourly_sums.

Theorem C09_hourly_length : forall s,
  d_days (get_data s) = false -> 1 <= lim s ->
  Z.of_nat (length (d_dns (get_data s))) = lim s.
Proof. exact hourly_length. Qed.
Print Assumptions C09_hourly_length.

(** Daily (and hourly) series never exceed the totals. *)
Theorem C09_daily_le_total : forall id ms en h,
  init_ok id ms -> wf_hist id h ->
  let d := get_data (run (init id ms en) h) in
  zsum (d_dns d) <= d_num d /\ zsum (d_blocked d) <= d_num_f d /\
  zsum (d_sb d) <= d_num_sb d /\ zsum (d_par d) <= d_num_p d.
Proof. exact daily_le_total. Qed.
Print Assumptions C09_daily_le_total.

(** Close; New preserves the invariant with the same events; in the same hour
    every answer is unchanged. *)
Theorem C09_restart : forall g id,
  Inv g -> g_clock g <= id < max_id -> g_phase g = PNormal ->
  Inv (gstep g (ORestart id)) /\
  g_ev (gstep g (ORestart id)) = g_ev g /\
  (id = cur_id (g_st g) ->
   get_data (restart (g_st g) id) = get_data (g_st g) /\
   num_nf (restart (g_st g) id) = num_nf (g_st g)).
Proof. exact restart_preserves. Qed.
Print Assumptions C09_restart.

(** ... and in a later hour it reads exactly like the hourly flush. *)
Theorem C09_restart_later_hour : forall g id,
  Inv g -> cur_id (g_st g) < id < max_id -> g_phase g = PNormal ->
  load_units (restart (g_st g) id) = load_units (flush (g_st g) id) /\
  cur_id (restart (g_st g) id) = cur_id (flush (g_st g) id).
Proof. exact restart_later_hour. Qed.
Print Assumptions C09_restart_later_hour.

(** Time units: days exactly when the limit spans more than 7 whole days; a
    daily series has one point per whole day of the limit. *)
Theorem C09_time_units : forall s, 1 <= lim s -> d_days (get_data s) = (7 <? lim s / 24).
Proof. exact time_units. Qed.
Print Assumptions C09_time_units.

Theorem C09_daily_length : forall s,
  1 <= lim s -> d_days (get_data s) = true ->
  Z.of_nat (length (d_dns (get_data s))) = lim s / 24.
Proof. exact daily_length. Qed.
Print Assumptions C09_daily_length.

(** Premises satisfiable, bounds attained non-trivially: 15 updates in the
    window, 10 reported after lowering and re-raising the limit. *)
Theorem C09_conservation_example :
  init_ok 490000 (48 * ms_hour) /\ wf_hist 490000 ex_hist /\
  let g := grun (ginit 490000 (48 * ms_hour) true) ex_hist in
  let s := g_st g in
  rep CTotal s = 10 /\ wsum s (fun i => g_ev g i CTotal) = 15 /\
  wsum s (fun i => if i <=? g_low g then 0 else g_ev g i CTotal) = 0 /\ g_raised g = true.
Proof. exact conservation_premises. Qed.
Print Assumptions C09_conservation_example.

Theorem C09_exact_example :
  wf_hist 490000 ex_hist2 /\
  let g := grun (ginit 490000 (2 * ms_hour) true) ex_hist2 in
  let s := g_st g in
  g_raised g = false /\ rep CTotal s = 7 /\ wsum s (fun i => g_ev g i CTotal) = 7 /\
  rep (CCat F) s = 2 /\ zsum (d_dns (get_data s)) = 7 /\ d_days (get_data s) = false.
Proof. exact conservation_exact_premises. Qed.
Print Assumptions C09_exact_example.

Theorem C09_daily_example :
  wf_hist 490000 ex_hist3 /\
  let d := get_data (run (init 490000 (192 * ms_hour) true) ex_hist3) in
  d_days d = true /\ zsum (d_dns d) = 3 /\ d_num d = 8 /\ length (d_dns d) = 8%nat /\
  zsum (d_blocked d) = 2 /\ d_num_f d = 3.
Proof. exact daily_premises. Qed.
Print Assumptions C09_daily_example.

Theorem C09_one_category_example :
  let s := init 490000 (24 * ms_hour) true in
  accepts s (ex_e 3) = true /\ 0 <= e_res (ex_e 3) /\ u_sb (cur (update s (ex_e 3))) = 1.
Proof. exact update_one_category_premises. Qed.
Print Assumptions C09_one_category_example.

(** Outside the property, recorded because the model follows the code: a
    negative result code passes Entry.validate and panics in unit.add. *)
Theorem C09_negative_result_panics :
  update_panics (init 490000 (24 * ms_hour) true) (ex_e (-1)) = true.
Proof. exact negative_result_panics. Qed.
Print Assumptions C09_negative_result_panics.

(** * The cut to the top 100 names and the average processing time *)

(** Serialisation leaves the total and every category of a unit alone ... *)
Theorem C09_cut_keeps_counters : forall k u, proj k (ser u) = proj k u.
Proof. exact proj_ser. Qed.
Print Assumptions C09_cut_keeps_counters.

(** ... so every total and every series of the answer is a function of the
    counters of the un-cut units ([load_units_raw]: stored units and the
    current unit as it is in memory). *)
Theorem C09_cut_leaves_totals_and_series : forall s,
  let d := get_data s in
  let us := load_units_raw s in
  let ser_of f := series (d_days d) (cur_id s) (Z.of_nat (length us) / 24) (map f us) in
  d_num d = zsum (map u_total us) /\ d_num_f d = zsum (map u_f us) /\
  d_num_sb d = zsum (map u_sb us) /\ d_num_ss d = zsum (map u_ss us) /\
  d_num_p d = zsum (map u_p us) /\ num_nf s = zsum (map u_nf us) /\
  d_dns d = ser_of u_total /\ d_blocked d = ser_of u_f /\ d_sb d = ser_of u_sb /\ d_par d = ser_of u_p.
Proof. exact cut_leaves_totals_and_series. Qed.
Print Assumptions C09_cut_leaves_totals_and_series.

(** Writing a unit and reading it back is idempotent (cut of a cut, average
    of an average): a second Close; New in the same hour changes nothing more. *)
Theorem C09_serialise_idempotent : forall u, ser (ser u) = ser u.
Proof. exact ser_idem. Qed.
Print Assumptions C09_serialise_idempotent.

Theorem C09_cut_only_removes : forall m, incl (cut100 m) m.
Proof. exact cut100_incl. Qed.
Print Assumptions C09_cut_only_removes.

(** TimeAvg is the whole-microsecond quotient of the hour ... *)
Theorem C09_time_avg_bounds : forall u,
  0 < u_total u -> 0 <= u_tsum u -> u_tsum u / u_total u < 4294967296 ->
  time_avg u * u_total u <= u_tsum u < (time_avg u + 1) * u_total u.
Proof. exact time_avg_bounds. Qed.
Print Assumptions C09_time_avg_bounds.

(** ... 0 for an hour whose average is below a microsecond (such an hour
    counts in every total like any other: the theorems above do not look at
    the time) ... *)
Theorem C09_sub_microsecond_unit : forall u,
  0 < u_total u -> 0 <= u_tsum u < u_total u -> time_avg u = 0.
Proof. exact sub_microsecond_unit. Qed.
Print Assumptions C09_sub_microsecond_unit.

(** ... and the reported average is the mean of the non-zero hourly averages. *)
Theorem C09_avg_time_between : forall us lo hi,
  (forall u, In u us -> time_avg u <> 0 -> lo <= time_avg u <= hi) ->
  zsum (map time_avg us) < 4294967296 -> 0 <= lo ->
  (exists u, In u us /\ time_avg u <> 0) ->
  lo <= avg_time us <= hi.
Proof. exact avg_time_between. Qed.
Print Assumptions C09_avg_time_between.

Theorem C09_top100_example :
  let h := many_domains 120 ++ [OUpdate {| e_res := 1; e_dom := 7; e_cli := 1; e_ups := []; e_time := 0 |}; OFlush 490001] in
  let d := get_data (run (init 490000 (24 * ms_hour) true) h) in
  d_num d = 121 /\ length (d_top_dom d) = 100%nat /\ existsb (fun p => (fst p =? 7) && (snd p =? 2)) (d_top_dom d) = true /\
  zsum (d_dns d) = 121 /\ d_avg d = 0 /\ zsum (map snd (d_top_dom d)) = 101.
Proof. exact top100_premises. Qed.
Print Assumptions C09_top100_example.

Theorem C09_avg_time_example :
  let fast := OUpdate {| e_res := 2; e_dom := 3; e_cli := 1; e_ups := []; e_time := 0 |} in
  let h := ex_all5 ++ [OFlush 490001; fast; fast; OFlush 490003; OUpdate (ex_e 1)] in
  let d := get_data (run (init 490000 (24 * ms_hour) true) h) in
  d_num d = 8 /\ d_avg d = 1500 /\ d_num_f d = 3.
Proof. exact avg_time_premises. Qed.
Print Assumptions C09_avg_time_example.

(** The cut really cuts: among distinct pairs at most 100 are kept, and no top
    list of any answer (any state) is longer than 100. *)
Theorem C09_cut_length : forall m, NoDup m -> Z.of_nat (length (cut100 m)) <= max_top.
Proof. exact cut100_length. Qed.
Print Assumptions C09_cut_length.

Theorem C09_top_lists_at_most_100 : forall s,
  let d := get_data s in
  Z.of_nat (length (d_top_dom d)) <= 100 /\ Z.of_nat (length (d_top_blk d)) <= 100 /\
  Z.of_nat (length (d_top_cli d)) <= 100 /\ Z.of_nat (length (d_top_up d)) <= 100.
Proof. exact top_lists_at_most_100. Qed.
Print Assumptions C09_top_lists_at_most_100.

(** The top lists are consistent with the totals in every reachable state (no
    assumption on the clock): the counts shown for queried and blocked
    domains together, and those shown for clients, never exceed
    num_dns_queries ([msum] = sum of the counts of a list). *)
Theorem C09_tops_within_totals : forall id ms en h,
  let d := get_data (run (init id ms en) h) in
  msum (d_top_dom d) + msum (d_top_blk d) <= d_num d /\ msum (d_top_cli d) <= d_num d.
Proof. exact tops_within_totals. Qed.
Print Assumptions C09_tops_within_totals.

Theorem C09_tops_within_totals_example :
  let d := get_data (run (init 490000 (24 * ms_hour) true) ex_all5) in
  msum (d_top_dom d) + msum (d_top_blk d) = 5 /\ d_num d = 5 /\ msum (d_top_cli d) = 5.
Proof. exact tops_within_totals_premises. Qed.
Print Assumptions C09_tops_within_totals_example.

(** * The reset: clear() taken apart *)

(** Run without anything in between, its three steps are the atomic clear. *)
Theorem C09_reset_steps_atomic : forall s id,
  clear_finish (clear_reopen (clear_close s)) id = clear s id.
Proof. exact reset_steps_atomic. Qed.
Print Assumptions C09_reset_steps_atomic.

(** A flush that finds the database pointer nil changes nothing and does not
    stop the periodic flusher. *)
Theorem C09_flush_while_closed : forall s id,
  dbnil s = true -> flush s id = s /\ flush_cont s id = true.
Proof. exact flush_while_closed. Qed.
Print Assumptions C09_flush_while_closed.

(** With updates and flushes of any kind while the file is closed, and only
    updates and hour-preserving flushes between the re-opening and the last
    step, nothing counted before or during the reset is left. *)
Theorem C09_reset_clears_all : forall g h1 h2 id,
  let g1 := grun (gstep g OClearClose) h1 in
  let g2 := grun (gstep g1 OClearReopen) h2 in
  let g3 := gstep g2 (OClearFinish id) in
  all_harmless (g_st (gstep g1 OClearReopen)) h2 = true ->
  (forall i k, g_ev g3 i k = 0) /\ db (g_st g3) = [] /\ cur (g_st g3) = empty_unit /\
  cur_id (g_st g3) = id /\ dbnil (g_st g3) = false.
Proof. exact reset_clears_all. Qed.
Print Assumptions C09_reset_clears_all.

(** Why the handler has to hold confMu (it does since 0c9114c; the lock-table
    check below fails if it stops): with an hour-changing flush between the
    re-opening and the last step, the unit being cleared lands in the new
    database and is still reported. *)
Theorem C09_reset_unlocked_refuted :
  wf_hist 490000 reset_race_hist /\
  let g := grun (ginit 490000 (24 * ms_hour) true) reset_race_hist in
  g_phase g = PNormal /\ rep CTotal (g_st g) = 5 /\ g_ev g 490000 CTotal = 5 /\
  api_stats (g_st g) <> None.
Proof. exact reset_race_refuted. Qed.
Print Assumptions C09_reset_unlocked_refuted.

Theorem C09_reset_example :
  let h := ex_all5 ++ [OClearClose; OFlush 490001; OUpdate (ex_e 1); OClearReopen; OUpdate (ex_e 2); OClearFinish 490001] in
  wf_hist 490000 h /\
  let g := grun (ginit 490000 (24 * ms_hour) true) h in
  rep CTotal (g_st g) = 0 /\ cur_id (g_st g) = 490001 /\ db (g_st g) = [] /\
  flush_cont (g_st g) 490002 = true /\ cur_id (flush (g_st g) 490002) = 490002.
Proof. exact reset_clears_all_premises. Qed.
Print Assumptions C09_reset_example.

(** * Mutual exclusion, checked against the lock table of the current source *)

Import Base.Conc Proofs.StatsConc.

(** Every access site to the statistics state holds the field's guard (known
    findings of C05 not excluded) ... *)
Theorem C09_mutual_exclusion_sites :
  forallb (Proofs.LockTable.access_ok_ro ro) stats_table = true /\
  ro f_curr = false /\ ro f_limit = false /\ ro f_enabled = false /\ ro f_ignored = false.
Proof. exact (conj stats_sites_guarded stats_state_is_mutable). Qed.
Print Assumptions C09_mutual_exclusion_sites.

(** ... holds exactly the statistics locks listed site by site in
    [StatsConc.reqs] (Update, flush, flushDB, readers, configuration handlers,
    clear from both handlers, Close), every listed site exists, the reset
    handler is a root of the table ... *)
Theorem C09_mutual_exclusion_table :
  forallb site_listed stats_table = true /\
  forallb (fun r => existsb (matches r) stats_table) reqs = true /\
  reset_root_present = true.
Proof. exact (conj stats_sites_as_listed (conj stats_reqs_present reset_is_a_root)). Qed.
Print Assumptions C09_mutual_exclusion_table.

(** ... every access to the mutable state is inside a confMu section (Close's
    as well since bf01866: no exception), in write mode for every operation
    that changes the state and for Close. *)
Theorem C09_mutual_exclusion_sections :
  forallb (fun r => negb (existsb (Coq.Strings.String.eqb (r_field r)) mutable_fields) ||
                    holds (r_held r) confMu) reqs = true /\
  forallb (fun r => negb (r_write r) || existsb (Coq.Strings.String.eqb (r_fn r)) writer_fns) reqs = true /\
  forallb (fun r => negb (existsb (Coq.Strings.String.eqb (r_fn r)) writer_fns) ||
                    negb (existsb (Coq.Strings.String.eqb (r_field r)) mutable_fields) ||
                    holds_w (r_held r) confMu) reqs = true /\
  existsb is_close reqs = true /\
  forallb (fun r => negb (is_close r) || holds_w (r_held r) confMu) reqs = true.
Proof.
  exact (conj state_accesses_inside_confMu (conj writers_are_listed (conj writers_hold_confMu_W close_holds_confMu_W))).
Qed.
Print Assumptions C09_mutual_exclusion_sections.

(** Lifted by the generic theorems of the lock machine: the operations as
    event lists follow the table (at every access exactly the locks of a
    table entry); any number of them, in any interleaving, never reach a state
    where two are about to touch the same field, one writing ... *)
Theorem C09_mutual_exclusion : forall progs,
  Forall (fun p => In p stats_ops) progs ->
  forall s, reachable (init progs) s -> ~ race s.
Proof. exact stats_ops_race_free. Qed.
Print Assumptions C09_mutual_exclusion.

(** ... nor a state where two of them are inside their confMu sections unless
    both only read: any two operations of which one changes the statistics
    state are serialised, which is what the sequential histories above need. *)
Theorem C09_operations_serialised : forall progs,
  Forall (fun p => In p (map (sections None) stats_ops)) progs ->
  forall s, reachable (init progs) s -> ~ race s.
Proof. exact stats_ops_serialised. Qed.
Print Assumptions C09_operations_serialised.

Theorem C09_mutual_exclusion_example :
  forallb (conforms_tight stats_table []) stats_ops = true /\
  conforms_tight stats_table [] [Acq currMu W; Rd f_curr; Wr f_curr; Rel currMu W] = false.
Proof. exact (conj stats_ops_follow_table unlocked_update_rejected). Qed.
Print Assumptions C09_mutual_exclusion_example.

(** Outside the theorems' domain, recorded because the model follows the code:
    below hour id = limit + 1 the unsigned [id - limit - 1] wraps and a restart
    deletes every stored hour. *)
Theorem C09_small_hour_id_wraps :
  let s := Stats.run (Stats.init 5 (24 * ms_hour) true) ex_all5 in
  rep CTotal s = 5 /\ rep CTotal (restart s 5) = 0 /\
  let s' := Stats.run (Stats.init 26 (24 * ms_hour) true) ex_all5 in
  rep CTotal (restart s' 26) = 5.
Proof. exact small_hour_id_wraps. Qed.
Print Assumptions C09_small_hour_id_wraps.

(** The reset is atomic: clear() from both handlers follows the lock table of
    the current source and is one confMu write section, like every other
    operation that changes the state; with [C09_operations_serialised] nothing
    can land between its steps, and [C09_reset_steps_atomic] says what the
    steps amount to then. *)
Theorem C09_reset_atomic :
  conforms_tight stats_table [] p_clear = true /\
  conforms_tight stats_table [] p_disable_and_clear = true /\
  one_write_section p_clear = true /\ one_write_section p_disable_and_clear = true /\
  one_write_section p_update = true /\ one_write_section (tl p_flush) = true /\
  one_write_section p_put_config = true /\ one_write_section p_set_limit = true.
Proof. exact reset_is_one_section. Qed.
Print Assumptions C09_reset_atomic.

(** * Per-upstream statistics as exact integers *)

(** unit.add: an accepted update adds, for every upstream response that counts
    (not cached, no error), one to the responses of its address and its
    duration in microseconds to the time sum of its address; nothing else
    changes in the two maps ([mget]: the map's value at an address, 0 when
    absent; [sorted]: strictly increasing keys, kept by every update). *)
Theorem C09_upstream_update : forall c e u a,
  sorted (u_up u) -> sorted (u_upt u) ->
  mget a (u_up (add_cat c e u)) = mget a (u_up u) + count_ups a (e_ups e) /\
  mget a (u_upt (add_cat c e u)) = mget a (u_upt u) + time_ups a (e_ups e) /\
  sorted (u_up (add_cat c e u)) /\ sorted (u_upt (add_cat c e u)).
Proof. exact upstream_update. Qed.
Print Assumptions C09_upstream_update.

(** GET /control/stats, any state: behind every reported average there are two
    integers, the responses and the microseconds of that upstream summed over
    the units of the window as they are stored (each unit's two maps cut to
    their 100 largest values independently); the float of the answer is
    sum / responses * 1e-6 (checked on the real answer by the harness). *)
Theorem C09_upstream_averages_exact : forall s a t n,
  In (a, (t, n)) (d_up_avg (get_data s)) ->
  n = zsum (map (fun u => ksum a (u_up u)) (load_units s)) /\
  t = zsum (map (fun u => ksum a (u_upt u)) (load_units s)) /\ t <> 0.
Proof. exact upstream_averages_exact. Qed.
Print Assumptions C09_upstream_averages_exact.

(** ... and an upstream with responses and a non-zero time sum is reported. *)
Theorem C09_upstream_averages_complete : forall us a,
  mget a (resp_of us) <> 0 -> mget a (tsum_of us) <> 0 ->
  In (a, (mget a (tsum_of us), mget a (resp_of us))) (up_avg us).
Proof. exact up_avg_complete. Qed.
Print Assumptions C09_upstream_averages_complete.

(** With at most 100 upstreams in an hour serialisation keeps both maps. *)
Theorem C09_upstream_small_units_uncut : forall u,
  Z.of_nat (length (u_up u)) <= max_top -> Z.of_nat (length (u_upt u)) <= max_top ->
  u_up (ser u) = u_up u /\ u_upt (ser u) = u_upt u.
Proof. exact ser_keeps_small_upstreams. Qed.
Print Assumptions C09_upstream_small_units_uncut.

Theorem C09_upstream_example :
  let h := [ex_up [(1, true, 2500); (2, false, 9000)]; ex_up [(1, true, 2500); (2, true, 0)];
            OFlush 490001; ex_up [(1, true, 700); (3, false, 5)]; ORestart 490001] in
  let d := get_data (Stats.run (Stats.init 490000 (24 * ms_hour) true) h) in
  d_up_avg d = [(1, (5700, 3))] /\ d_top_up d = [(1, 3); (2, 1)] /\ d_num d = 3.
Proof. exact upstream_example. Qed.
Print Assumptions C09_upstream_example.

(** * Clean shutdown concurrent with the hourly flush and with updates *)

(** The bbolt write transaction on the statistics database is a lock ([dbw]).
    On the table of acquisition sites regenerated from the current source
    (Gen/LockTableAcq.v, projected onto confMu / currMu / the transaction) every
    site is a listed one with exactly the listed locks held, every listed site
    exists, the sites pass the gate-lock criterion although no single ranking
    orders them (flush: currMu then the transaction; readers and Close: the
    transaction then currMu), and the operations as event lists take their
    locks at those sites. *)
Theorem C09_mutual_exclusion_acquisitions :
  forallb acq_listed stats_sites = true /\
  forallb (fun r => existsb (amatches r) stats_sites) acq_reqs = true /\
  Proofs.LockTableGate.gated_with stats_rank0 stats_rkd stats_sites = true /\
  forallb (Proofs.LockTableGate.site_ascending stats_rank0) stats_sites = false /\
  forallb (Proofs.LockTableGate.conforms_sites stats_sites []) stats_ops = true.
Proof.
  exact (conj stats_acquisitions_as_listed (conj stats_acq_reqs_present (conj stats_sites_gated
          (conj stats_sites_not_ranked stats_ops_take_locks_at_sites)))).
Qed.
Print Assumptions C09_mutual_exclusion_acquisitions.

(** Any number of the operations (Update, flush, readers, configuration
    handlers, clear, Close), any interleaving: never deadlocked. *)
Theorem C09_no_deadlock : forall progs,
  Forall (fun p => In p stats_ops) progs ->
  forall s, reachable (init progs) s -> ~ deadlocked s.
Proof. exact stats_ops_no_deadlock. Qed.
Print Assumptions C09_no_deadlock.

(** Lock level: Close follows the table of the current source and is one
    confMu write section like the flush and Update; for any number of the
    operations started together: no race, no two inside their sections unless
    both read (so Close and the flush run one after the other, in either
    order, updates before, between or after), no deadlock. *)
Theorem C09_shutdown_during_flush_serialises :
  conforms_tight stats_table [] p_close = true /\
  Proofs.LockTableGate.conforms_sites stats_sites [] p_close = true /\
  one_write_section p_close = true /\ one_write_section (tl p_flush) = true /\
  one_write_section p_update = true /\
  forall progs, Forall (fun p => In p stats_ops) progs ->
    (forall s, reachable (init progs) s -> ~ race s) /\
    (forall s, reachable (init (map (sections None) progs)) s -> ~ race s) /\
    (forall s, reachable (init progs) s -> ~ deadlocked s).
Proof. exact shutdown_during_flush. Qed.
Print Assumptions C09_shutdown_during_flush_serialises.

(** Data level: whichever way the serialised bodies were ordered, updates and
    flushes; Close; updates and flushes (on the closed context); New is the
    sequential history "what ran before Close, then ORestart". *)
Theorem C09_shutdown_equals_sequential_history : forall s pre post id,
  dbnil s = false -> forallb uf pre = true -> forallb uf post = true ->
  xrun s (map XOp pre ++ XClose :: map XOp post ++ [XNew id]) = Stats.run s (pre ++ [ORestart id]).
Proof. exact shutdown_serialises. Qed.
Print Assumptions C09_shutdown_equals_sequential_history.

Theorem C09_shutdown_flush_then_close : forall s us1 id1 us2 us3 id2,
  dbnil s = false ->
  xrun s (map XOp (upds us1 ++ [OFlush id1] ++ upds us2) ++ XClose :: map XOp (upds us3) ++ [XNew id2]) =
  Stats.run s (upds us1 ++ [OFlush id1] ++ upds us2 ++ [ORestart id2]).
Proof. exact flush_then_close. Qed.
Print Assumptions C09_shutdown_flush_then_close.

Theorem C09_shutdown_close_then_flush : forall s us1 us2 id1 us3 id2,
  dbnil s = false ->
  xrun s (map XOp (upds us1) ++ XClose :: map XOp (upds us2 ++ [OFlush id1] ++ upds us3) ++ [XNew id2]) =
  Stats.run s (upds us1 ++ [ORestart id2]).
Proof. exact close_then_flush. Qed.
Print Assumptions C09_shutdown_close_then_flush.

(** Counts survive: after New the conservation bounds hold with respect to
    exactly the updates counted before Close. *)
Theorem C09_shutdown_counts_survive : forall id0 ms en h pre post id k,
  init_ok id0 ms -> forallb uf pre = true -> forallb uf post = true ->
  wf_hist id0 (h ++ pre ++ [ORestart id]) ->
  let s := xrun (Stats.init id0 ms en) (map XOp h ++ map XOp pre ++ XClose :: map XOp post ++ [XNew id]) in
  let g := grun (ginit id0 ms en) (h ++ pre ++ [ORestart id]) in
  rep k s <= wsum s (fun i => g_ev g i k) /\
  wsum s (fun i => if i <=? g_low g then 0 else g_ev g i k) <= rep k s /\
  (g_raised g = false -> rep k s = wsum s (fun i => g_ev g i k)).
Proof. exact shutdown_conservation. Qed.
Print Assumptions C09_shutdown_counts_survive.

(** Who won the race does not show afterwards. *)
Theorem C09_shutdown_order_irrelevant : forall id0 ms en h id1 id2 k,
  init_ok id0 ms ->
  wf_hist id0 (h ++ [OFlush id1; ORestart id2]) -> wf_hist id0 (h ++ [ORestart id2]) ->
  g_raised (grun (ginit id0 ms en) h) = false ->
  let s0 := Stats.init id0 ms en in
  rep k (xrun s0 (map XOp h ++ [XOp (OFlush id1); XClose; XNew id2])) =
  rep k (xrun s0 (map XOp h ++ [XClose; XOp (OFlush id1); XNew id2])).
Proof. exact shutdown_order_irrelevant. Qed.
Print Assumptions C09_shutdown_order_irrelevant.

Theorem C09_shutdown_example :
  let s0 := Stats.init 490000 (24 * ms_hour) true in
  let late := [OUpdate (ex_e 1); OUpdate (ex_e 2)] in
  let a := xrun s0 (map XOp ex_all5 ++ [XOp (OFlush 490001)] ++ map XOp late ++ [XClose; XNew 490001]) in
  let b := xrun s0 (map XOp ex_all5 ++ [XClose; XOp (OFlush 490001)] ++ map XOp late ++ [XNew 490001]) in
  init_ok 490000 (24 * ms_hour) /\
  wf_hist 490000 (ex_all5 ++ [OFlush 490001] ++ late ++ [ORestart 490001]) /\
  wf_hist 490000 (ex_all5 ++ [ORestart 490001]) /\
  rep CTotal a = 7 /\ rep CTotal b = 5 /\ cur_id a = 490001 /\ cur_id b = 490001 /\
  dbnil a = false /\ dbnil b = false /\
  rep CTotal (xrun s0 (map XOp ex_all5 ++ [XOp (OFlush 490001); XClose; XNew 490001])) = 5.
Proof. exact shutdown_example. Qed.
Print Assumptions C09_shutdown_example.

(** Close as it was before bf01866 (write transaction, then currMu, no
    confMu): its acquisition sites do not pass the criterion, and the lock
    machine reaches a deadlocked state with the flush: the flush holds confMu
    and currMu and waits for the transaction, Close holds the transaction and
    waits for currMu; an Update arriving then waits for confMu for good. *)
Theorem C09_shutdown_before_fix_refuted :
  Proofs.LockTableGate.conforms_sites sites_before_fix [] p_close_before_fix = true /\
  Proofs.LockTableGate.conforms_sites sites_before_fix [] p_flush = true /\
  Proofs.LockTableGate.gated_with stats_rank0 stats_rkd sites_before_fix = false /\
  (exists s, reachable (init [p_flush; p_close_before_fix]) s /\ deadlocked s) /\
  (exists s, reachable (init [p_flush; p_close_before_fix; p_update]) s /\ deadlocked s).
Proof.
  exact (conj (proj1 close_before_fix_ungated) (conj (proj1 (proj2 close_before_fix_ungated))
          (conj (proj2 (proj2 close_before_fix_ungated)) (conj close_before_fix_deadlocks close_before_fix_blocks_updates)))).
Qed.
Print Assumptions C09_shutdown_before_fix_refuted.

(** * Round 6: the periodic worker as part of the system (Model/StatsWorker.v)

    [Update] adds to the current unit whatever its id is; the id is changed by
    ONE goroutine, the worker started by Start, which reads the id source
    ([WRead] / [TRead]), then takes the locks and rolls over if the id differs
    ([WApply] / [TApply]), then sleeps.  "Counted in the hour that was current
    when it was counted" is therefore true of the code only up to the worker's
    sleep; this is said here precisely. *)

(** Untimed.  From any state with the database open and a limit of at least an
    hour: after a pass of the worker that read the id source at [w_clk w]
    (updates and any changes of the id source between its read and its locked
    part), and until the locked part of the next pass, the current unit
    carries exactly that hour: every query counted between two passes is
    attributed to the hour that was current at the earlier one's read. *)
Theorem C09_counted_in_hour_of_last_wake : forall w m h2,
  wgood w -> forallb quiet m = true -> forallb no_apply h2 = true ->
  let w' := wrun w ([WRead] ++ m ++ [WApply] ++ h2) in
  cur_id (w_st w') = w_clk w /\ wgood w'.
Proof. exact counted_in_hour_of_last_pass. Qed.
Print Assumptions C09_counted_in_hour_of_last_wake.

(** Timed.  [pol] is how long the worker sleeps after a pass that found
    nothing to roll over, [lat] bounds how long a pass that is due takes to
    get done (scheduling, the two mutexes).  For every history of updates,
    passing time, steps of the wall clock of ANY size (gaps of many hours) and
    passes that follows the policy: at every moment the current unit's hour is
    the hour the clock showed at some instant of the history at most
    [P + 2 lat] before. *)
Theorem C09_current_hour_within_tick : forall pol P lat W0 h,
  policy_bounded pol P -> 0 <= lat -> start_ok W0 ->
  tvalid_hist pol lat W0 h = true ->
  let W := trun pol W0 h in
  exists W1, In W1 (ttrace pol W0 h) /\
    cur_id (t_st W) = hour_of (t_wall W1) /\
    t_now W - (P + 2 * lat) <= t_now W1 <= t_now W.
Proof. exact current_hour_within_tick. Qed.
Print Assumptions C09_current_hour_within_tick.

(** The clause of the property as the code has it: a query counted at instant
    [t] is added to the current unit (and to nothing else: [update]), whose
    hour is hour(t') for an instant [t'] of the history so far with
    [t - tick <= t' <= t], [tick = P + 2 lat]. *)
Theorem C09_attribution_within_tick : forall pol P lat W0 h1 e h2,
  policy_bounded pol P -> 0 <= lat -> start_ok W0 ->
  tvalid_hist pol lat W0 (h1 ++ TUpdate e :: h2) = true ->
  let W := trun pol W0 h1 in
  let W' := Model.StatsWorker.tstep pol W (TUpdate e) in
  t_st W' = update (t_st W) e /\ cur_id (t_st W') = cur_id (t_st W) /\
  exists W1, In W1 (ttrace pol W0 h1) /\
    cur_id (t_st W) = hour_of (t_wall W1) /\
    t_now W - (P + 2 * lat) <= t_now W1 <= t_now W.
Proof. exact attribution_within_tick. Qed.
Print Assumptions C09_attribution_within_tick.

(** stats.go as it is sleeps one second: tick = 1000 ms + 2 lat. *)
Theorem C09_attribution_as_written : forall lat W0 h1 e h2,
  0 <= lat -> start_ok W0 ->
  tvalid_hist policy_as_written lat W0 (h1 ++ TUpdate e :: h2) = true ->
  let W := trun policy_as_written W0 h1 in
  exists W1, In W1 (ttrace policy_as_written W0 h1) /\
    cur_id (t_st W) = hour_of (t_wall W1) /\
    t_now W - (1000 + 2 * lat) <= t_now W1 <= t_now W.
Proof. exact attribution_as_written. Qed.
Print Assumptions C09_attribution_as_written.

Theorem C09_attribution_example :
  start_ok ex_world0 /\
  tvalid_hist policy_as_written 5 ex_world0 ex_good = true /\
  let W := trun policy_as_written ex_world0 ex_good in
  cur_id (t_st W) = 490005 /\ u_total (cur (t_st W)) = 1 /\
  rep CTotal (t_st W) = 3 /\ t_now W = 1003 /\ t_due W = 2003.
Proof. exact attribution_example. Qed.
Print Assumptions C09_attribution_example.

(** The policy "nothing to do until the next hour begins" (sleep until the
    wall clock's next full hour): a history that follows it to the millisecond
    ([lat] = 0) in which the clock is stepped by five hours right after an
    idle pass; a query counted 50 minutes later is accepted, the clock shows
    hour + 5, and no instant of the last 50 minutes had the hour the query is
    attributed to.  Hence the bound of [C09_attribution_within_tick] fails for
    that policy for every tick up to 50 minutes. *)
Theorem C09_sleep_until_next_hour_refuted :
  (exists W0 h1 e h2,
    start_ok W0 /\
    tvalid_hist policy_until_next_hour 0 W0 (h1 ++ TUpdate e :: h2) = true /\
    let W := trun policy_until_next_hour W0 h1 in
    accepts (t_st W) e = true /\
    hour_of (t_wall W) = cur_id (t_st W) + 5 /\
    forall W1, In W1 (ttrace policy_until_next_hour W0 h1) ->
      t_now W - 3000000 <= t_now W1 -> cur_id (t_st W) <> hour_of (t_wall W1)) /\
  ~ (forall W0 h1 e h2, start_ok W0 ->
       tvalid_hist policy_until_next_hour 0 W0 (h1 ++ TUpdate e :: h2) = true ->
       let W := trun policy_until_next_hour W0 h1 in
       exists W1, In W1 (ttrace policy_until_next_hour W0 h1) /\
         cur_id (t_st W) = hour_of (t_wall W1) /\ t_now W - 3000000 <= t_now W1 <= t_now W).
Proof. exact (conj sleep_until_next_hour_refuted within_tick_fails_for_next_hour). Qed.
Print Assumptions C09_sleep_until_next_hour_refuted.

(** The system with the worker is a history of Model/Stats.v: the worker's
    passes are the flushes, each with the id it read; the timed machine is the
    untimed one with instants attached. *)
Theorem C09_worker_history_is_op_history : forall h w,
  w_st (wrun w h) = Stats.run (w_st w) (wops w h).
Proof. exact worker_history_is_op_history. Qed.
Print Assumptions C09_worker_history_is_op_history.

Theorem C09_timed_is_untimed : forall pol h W,
  t_in (trun pol W h) = wrun (t_in W) (tprojs pol W h).
Proof. exact timed_is_untimed. Qed.
Print Assumptions C09_timed_is_untimed.

(** Totals = counted queries inside the window, for the system with the
    worker: the id source never goes back ([wenv_hist]), updates and changes
    of the id source in any order with the worker's reads and locked parts;
    [g_ev g i k] counts a query in the hour of the unit it was added to, which
    by the theorems above is the hour the worker last read. *)
Theorem C09_worker_conservation : forall id ms en h k,
  init_ok id ms -> wenv_hist id h ->
  let s := w_st (wrun (winit id ms en) h) in
  let g := grun (ginit id ms en) (wops (winit id ms en) h) in
  rep k s <= wsum s (fun i => g_ev g i k) /\
  wsum s (fun i => if i <=? g_low g then 0 else g_ev g i k) <= rep k s /\
  (g_raised g = false -> rep k s = wsum s (fun i => g_ev g i k)).
Proof. exact worker_conservation. Qed.
Print Assumptions C09_worker_conservation.

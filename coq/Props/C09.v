From AGH Require Import Model.Stats.

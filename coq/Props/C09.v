(** C09: statistics totals equal the queries counted inside the retention
    window.  Only statements here; proofs live in Proofs/Stats.v.

    Reading guide.  [run (init id ms en) h] is the model's state after New on
    a fresh file (clock [id], limit [ms] milliseconds, enabled [en]) followed
    by the history [h] of updates, flushes, restarts, clears and limit
    changes.  [grun (ginit ..) h] runs the same history keeping the ghost
    record beside the state: [g_ev g i k] = number of accepted updates counted
    while hour [i] was current, since the last clear, for counter [k] (the
    total or one of the five result categories); [g_low g] = the largest
    [id - limit] at any flush/restart since the last clear (hours [<= g_low]
    have been outside the window at a flush or restart); [g_raised g] = the
    limit was raised since the last clear.  [rep k s] is what the API reports
    for counter [k] (num_dns_queries, num_blocked_filtering, ...); [wsum s f]
    sums [f] over the hours (cur - limit, cur].  [wf_hist]: the hour clock
    never goes back and fits uint32; [init_ok]: first hour >= 8762 (so that
    hour - limit - 1 does not wrap; real hours are about 5e5) and a valid
    limit (1 hour .. 365 days). *)
From Coq Require Import ZArith List Bool.
From AGH Require Import Model.Stats Proofs.Stats.
Import ListNotations.
Local Open Scope Z_scope.

(** (a) never more than the accepted, un-cleared updates whose hour lies in the
    current window; (b) at least those of hours that have been inside the
    window at every flush and restart since; equal outright while the limit has
    not been raised. *)
Theorem C09_conservation : forall id ms en h k,
  init_ok id ms -> wf_hist id h ->
  let g := grun (ginit id ms en) h in
  let s := run (init id ms en) h in
  rep k s <= wsum s (fun i => g_ev g i k) /\
  wsum s (fun i => if i <=? g_low g then 0 else g_ev g i k) <= rep k s /\
  (g_raised g = false -> rep k s = wsum s (fun i => g_ev g i k)).
Proof. exact conservation. Qed.
Print Assumptions C09_conservation.

(** [rep] is what get_data returns. *)
Theorem C09_rep_is_api : forall s,
  d_num (get_data s) = rep CTotal s /\ num_nf s = rep (CCat NF) s /\
  d_num_f (get_data s) = rep (CCat F) s /\ d_num_sb (get_data s) = rep (CCat SB) s /\
  d_num_ss (get_data s) = rep (CCat SS) s /\ d_num_p (get_data s) = rep (CCat P) s.
Proof. exact rep_get_data. Qed.
Print Assumptions C09_rep_is_api.

(** The refinement invariant of Appendix D holds in every reachable state:
    the current unit holds the events of its hour, every stored unit below it
    holds the events of its hour, a missing unit means no events or an hour
    that was outside the window at a flush/restart ([i_db]); nothing is stored
    or counted above the current hour. *)
Theorem C09_invariant : forall id ms en h,
  init_ok id ms -> wf_hist id h -> Inv (grun (ginit id ms en) h).
Proof. exact reachable_inv. Qed.
Print Assumptions C09_invariant.

(** Per hour of the window: reported = counted, or nothing for a lost hour. *)
Theorem C09_per_hour : forall g i k,
  Inv g -> i <= cur_id (g_st g) ->
  (if i <=? g_low g then 0 else g_ev g i k) <= proj k (unit_of (g_st g) i) <= g_ev g i k.
Proof. exact hour_bounds. Qed.
Print Assumptions C09_per_hour.

(** Each accepted update increments the total and exactly one category. *)
Theorem C09_one_category : forall s e,
  accepts s e = true -> 0 <= e_res e ->
  exists c,
    u_total (cur (update s e)) = u_total (cur s) + 1 /\
    u_cat c (cur (update s e)) = u_cat c (cur s) + 1 /\
    (forall c', c' <> c -> u_cat c' (cur (update s e)) = u_cat c' (cur s)) /\
    cur_id (update s e) = cur_id s /\ db (update s e) = db s.
Proof. exact update_one_category. Qed.
Print Assumptions C09_one_category.

(** ... hence the reported total is the sum of the five category totals. *)
Theorem C09_one_category_reported : forall id ms en h,
  init_ok id ms -> wf_hist id h ->
  let s := run (init id ms en) h in
  d_num (get_data s) =
    num_nf s + d_num_f (get_data s) + d_num_sb (get_data s) + d_num_ss (get_data s) + d_num_p (get_data s).
Proof. exact one_category_reported. Qed.
Print Assumptions C09_one_category_reported.

(** Hourly series sum to the totals (any state) and have one point per hour. *)
Theorem C09_hourly_sums : forall s,
  d_days (get_data s) = false ->
  zsum (d_dns (get_data s)) = d_num (get_data s) /\
  zsum (d_blocked (get_data s)) = d_num_f (get_data s) /\
  zsum (d_sb (get_data s)) = d_num_sb (get_data s) /\
  zsum (d_par (get_data s)) = d_num_p (get_data s).
Proof. exact hourly_sums. Qed.
Print Assumptions C09_hourly_sums.

Theorem C09_hourly_length : forall s,
  d_days (get_data s) = false -> 1 <= lim s ->
  Z.of_nat (length (d_dns (get_data s))) = lim s.
Proof. exact hourly_length. Qed.
Print Assumptions C09_hourly_length.

(** Daily (and hourly) series never exceed the totals. *)
Theorem C09_daily_le_total : forall id ms en h,
  init_ok id ms -> wf_hist id h ->
  let d := get_data (run (init id ms en) h) in
  zsum (d_dns d) <= d_num d /\ zsum (d_blocked d) <= d_num_f d /\
  zsum (d_sb d) <= d_num_sb d /\ zsum (d_par d) <= d_num_p d.
Proof. exact daily_le_total. Qed.
Print Assumptions C09_daily_le_total.

(** Close; New preserves the invariant with the same events; in the same hour
    every answer is unchanged. *)
Theorem C09_restart : forall g id,
  Inv g -> g_clock g <= id < max_id ->
  Inv (gstep g (ORestart id)) /\
  g_ev (gstep g (ORestart id)) = g_ev g /\
  (id = cur_id (g_st g) ->
   get_data (restart (g_st g) id) = get_data (g_st g) /\
   num_nf (restart (g_st g) id) = num_nf (g_st g)).
Proof. exact restart_preserves. Qed.
Print Assumptions C09_restart.

(** ... and in a later hour it reads exactly like the hourly flush. *)
Theorem C09_restart_later_hour : forall g id,
  Inv g -> cur_id (g_st g) < id < max_id ->
  load_units (restart (g_st g) id) = load_units (flush (g_st g) id) /\
  cur_id (restart (g_st g) id) = cur_id (flush (g_st g) id).
Proof. exact restart_later_hour. Qed.
Print Assumptions C09_restart_later_hour.

(** Time units: days exactly when the limit spans more than 7 whole days; a
    daily series has one point per whole day of the limit. *)
Theorem C09_time_units : forall s, 1 <= lim s -> d_days (get_data s) = (7 <? lim s / 24).
Proof. exact time_units. Qed.
Print Assumptions C09_time_units.

Theorem C09_daily_length : forall s,
  1 <= lim s -> d_days (get_data s) = true ->
  Z.of_nat (length (d_dns (get_data s))) = lim s / 24.
Proof. exact daily_length. Qed.
Print Assumptions C09_daily_length.

(** Premises satisfiable, bounds attained non-trivially: 15 updates in the
    window, 10 reported after lowering and re-raising the limit. *)
Theorem C09_conservation_example :
  init_ok 490000 (48 * ms_hour) /\ wf_hist 490000 ex_hist /\
  let g := grun (ginit 490000 (48 * ms_hour) true) ex_hist in
  let s := g_st g in
  rep CTotal s = 10 /\ wsum s (fun i => g_ev g i CTotal) = 15 /\
  wsum s (fun i => if i <=? g_low g then 0 else g_ev g i CTotal) = 0 /\ g_raised g = true.
Proof. exact conservation_premises. Qed.
Print Assumptions C09_conservation_example.

Theorem C09_exact_example :
  wf_hist 490000 ex_hist2 /\
  let g := grun (ginit 490000 (2 * ms_hour) true) ex_hist2 in
  let s := g_st g in
  g_raised g = false /\ rep CTotal s = 7 /\ wsum s (fun i => g_ev g i CTotal) = 7 /\
  rep (CCat F) s = 2 /\ zsum (d_dns (get_data s)) = 7 /\ d_days (get_data s) = false.
Proof. exact conservation_exact_premises. Qed.
Print Assumptions C09_exact_example.

Theorem C09_daily_example :
  wf_hist 490000 ex_hist3 /\
  let d := get_data (run (init 490000 (192 * ms_hour) true) ex_hist3) in
  d_days d = true /\ zsum (d_dns d) = 3 /\ d_num d = 8 /\ length (d_dns d) = 8%nat /\
  zsum (d_blocked d) = 2 /\ d_num_f d = 3.
Proof. exact daily_premises. Qed.
Print Assumptions C09_daily_example.

Theorem C09_one_category_example :
  let s := init 490000 (24 * ms_hour) true in
  accepts s (ex_e 3) = true /\ 0 <= e_res (ex_e 3) /\ u_sb (cur (update s (ex_e 3))) = 1.
Proof. exact update_one_category_premises. Qed.
Print Assumptions C09_one_category_example.

(** Outside the property, recorded because the model follows the code: a
    negative result code passes Entry.validate and panics in unit.add. *)
Theorem C09_negative_result_panics :
  update_panics (init 490000 (24 * ms_hour) true) (ex_e (-1)) = true.
Proof. exact negative_result_panics. Qed.
Print Assumptions C09_negative_result_panics.

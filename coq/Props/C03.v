(** C03: access lists.  Only statements here; proofs live in Proofs/Access.v. *)
From Coq Require Import List NArith Bool.
From AGH Require Import Base.Run Base.NetAddr Base.RuleEngine Model.Access Proofs.Access.
From AGH Require Import Model.AccessPersist Proofs.AccessPersist Proofs.AccessQuestion.
From AGH Require Import Model.AccessGlue Proofs.AccessGlue.
From AGH Require Model.TLSSettings Model.TLSGlue.
From AGH Require Base.Dom Model.ClientID Proofs.ClientID.
Import ListNotations.
Local Open Scope N_scope.

(** Allow-list mode (the allowed list has entries): a client is admitted
    exactly when its address is listed (literally, or inside a listed CIDR of
    any length after dropping the zone) or its ClientID is listed. *)
Theorem C03_allowlist_mode : forall allowed blocked hosts ip id,
  has_entries allowed ->
  (admitted (new_access allowed blocked hosts) (Some ip) id <->
   ip_listed allowed ip \/ cid_listed allowed id).
Proof. exact allowlist_mode_spec. Qed.
Print Assumptions C03_allowlist_mode.

(** ... and the disallowed list is then ignored. *)
Theorem C03_allowlist_mode_ignores_disallowed : forall allowed b1 b2 hosts ip id,
  has_entries allowed ->
  fst (is_blocked_client (new_access allowed b1 hosts) ip id) =
  fst (is_blocked_client (new_access allowed b2 hosts) ip id).
Proof. exact allowlist_mode_ignores_blocked. Qed.
Print Assumptions C03_allowlist_mode_ignores_disallowed.

(** Block-list mode (no allowed entries): excluded exactly when the address
    or the ClientID is disallowed. *)
Theorem C03_blocklist_mode : forall blocked hosts ip id,
  excluded (new_access [] blocked hosts) (Some ip) id <->
  ip_listed blocked ip \/ cid_listed blocked id.
Proof. exact blocklist_mode_spec. Qed.
Print Assumptions C03_blocklist_mode.

(** CIDR membership is the arithmetic one for every prefix length. *)
Theorem C03_prefix_membership : forall p a, prefix_contains p a = true <-> in_block p a.
Proof. exact prefix_contains_spec. Qed.
Print Assumptions C03_prefix_membership.

(** An excluded client or a blocked name is not served: whatever the request
    handler is (resolution, filtering, query log, statistics), it does not
    run and its state is unchanged, the ClientID cache is unchanged; no reply
    over UDP / DNSCrypt, REFUSED over every other transport. *)
Theorem C03_blocked_not_served :
  forall (S Req Resp : Type) (handler : S -> Req -> S * Resp) a p ip id q cache st rq,
  blocked_request a ip id q ->
  serve handler a p (Some id) ip q cache st rq = (st, cache, expected_refusal p).
Proof. exact @blocked_not_served. Qed.
Print Assumptions C03_blocked_not_served.

(** All other requests are handed to the handler. *)
Theorem C03_others_served :
  forall (S Req Resp : Type) (handler : S -> Req -> S * Resp) a p ip id q cache st rq,
  ~ blocked_request a ip id q ->
  serve handler a p (Some id) ip q cache st rq =
  (fst (handler st rq), match id with [] => cache | _ => id :: cache end,
   Answer (snd (handler st rq))).
Proof. exact @others_served. Qed.
Print Assumptions C03_others_served.

(** Non-vacuity. *)
Example C03_allowlist_premises_satisfiable :
  has_entries [ENet ex_net; ECid ex_cid] /\
  admitted (new_access [ENet ex_net; ECid ex_cid] [EIP ex_ip] []) (Some ex_ip) [] /\
  admitted (new_access [ENet ex_net; ECid ex_cid] [] []) (Some (mkAddr V4 5 [])) (lower ex_cid) /\
  excluded (new_access [ENet ex_net; ECid ex_cid] [] []) (Some (mkAddr V4 5 [])) [120].
Proof. exact allowlist_premises_satisfiable. Qed.

Example C03_blocklist_premises_satisfiable :
  excluded (new_access [] [ENet ex_net] []) (Some ex_ip) [] /\
  excluded (new_access [] [ECid ex_cid] []) (Some (mkAddr V6 1 [])) (lower ex_cid) /\
  admitted (new_access [] [ECid ex_cid] []) (Some (mkAddr V6 1 [])) [120].
Proof. exact blocklist_premises_satisfiable. Qed.

Example C03_blocked_request_satisfiable :
  blocked_request (new_access [] [] [ex_host_rule]) (Some ex_ip) []
    (Some ([66;46;97;46;84;69;83;84;46], 1)) /\
  ~ blocked_request (new_access [] [] [ex_host_rule]) (Some ex_ip) []
    (Some ([120;46;116;101;115;116;46], 1)).
Proof. exact blocked_request_satisfiable. Qed.

(** * HandleBefore with the ClientID extraction of C16 in front and the
      ClientID cache as state (round 2) *)

(** What the pre-request hook returns, for every context: a failed ClientID
    extraction (possible over DoT / DoH / DoQ only) is answered SERVFAIL
    before the lists are consulted; otherwise an excluded client or blocked
    name gets the protocol's refusal and everything else is let through with
    its ClientID. *)
Theorem C03_handle_before_spec : forall a t x,
  match extract_clientid t x with
  | None => handle_before_ctx a t x = BServfail /\ secure_proto (cx_proto x)
  | Some id =>
      (blocked_request a (cx_ip x) id (cx_q x) /\ handle_before_ctx a t x = pre_blocked (cx_proto x)) \/
      (~ blocked_request a (cx_ip x) id (cx_q x) /\
       handle_before_ctx a t x = BContinue (match id with nil => None | _ => Some id end))
  end.
Proof. exact handle_before_ctx_spec. Qed.
Print Assumptions C03_handle_before_spec.

(** The cache is written exactly when the request is let through with a
    non-empty ClientID ... *)
Theorem C03_cache_written_iff_admitted_with_clientid : forall cap a t x c,
  fst (before_step cap a t x c) =
  match handle_before_ctx a t x with
  | BContinue (Some id) => cache_set cap c (cx_rid x) id
  | _ => c
  end.
Proof. exact before_step_cache. Qed.
Print Assumptions C03_cache_written_iff_admitted_with_clientid.

(** ... so a dropped, refused or SERVFAILed request leaves it unchanged. *)
Theorem C03_not_admitted_cache_unchanged : forall cap a t x c,
  ~ let_through (snd (before_step cap a t x c)) -> fst (before_step cap a t x c) = c.
Proof. exact not_let_through_cache_unchanged. Qed.
Print Assumptions C03_not_admitted_cache_unchanged.

(** An excluded client (by address, or by the ClientID extracted from the DoH
    path / DoT / DoQ / DoH server name) or a blocked name: the handler does
    not run, cache unchanged, no reply over UDP / DNSCrypt, REFUSED
    elsewhere. *)
Theorem C03_blocked_ctx_not_served :
  forall (S Req Resp : Type) (handler : S -> bytes -> Req -> S * Resp) cap a t x id c st rq,
  extract_clientid t x = Some id ->
  blocked_request a (cx_ip x) id (cx_q x) ->
  serve_ctx handler cap a t x c st rq = (st, c, expected_refusal (cx_proto x)).
Proof. exact @blocked_ctx_not_served. Qed.
Print Assumptions C03_blocked_ctx_not_served.

(** A ClientID that cannot be extracted: SERVFAIL whatever the lists say
    (also when they exclude the address: SERVFAIL, not REFUSED), nothing
    runs, cache unchanged; only over DoT / DoH / DoQ. *)
Theorem C03_extraction_error_not_served :
  forall (S Req Resp : Type) (handler : S -> bytes -> Req -> S * Resp) cap a t x c st rq,
  extract_clientid t x = None ->
  serve_ctx handler cap a t x c st rq = (st, c, Servfail) /\ secure_proto (cx_proto x).
Proof. exact @extraction_error_not_served. Qed.
Print Assumptions C03_extraction_error_not_served.

(** Every other request is served and the handler is given exactly the
    extracted ClientID (processInitial reads back what the hook wrote under
    the request id; for a request without ClientID provided no entry carries
    its id). *)
Theorem C03_admitted_ctx_served :
  forall (S Req Resp : Type) (handler : S -> bytes -> Req -> S * Resp) cap a t x id c st rq,
  extract_clientid t x = Some id ->
  ~ blocked_request a (cx_ip x) id (cx_q x) ->
  (id = nil -> cache_find (cx_rid x) c = None) ->
  exists c',
    serve_ctx handler cap a t x c st rq =
      (fst (handler st id rq), c', Answer (snd (handler st id rq))) /\
    (id = nil -> c' = c) /\
    (id <> nil -> cache_find (cx_rid x) c' = Some id).
Proof. exact @admitted_ctx_served. Qed.
Print Assumptions C03_admitted_ctx_served.

(** Between the hook and processInitial other requests may run their hooks
    and reads: fewer than [cap] of them (any number if the cache is
    unbounded) never make the request lose its ClientID. *)
Theorem C03_clientid_survives_interleaving : forall cap a t x id c ops,
  handle_before_ctx a t x = BContinue (Some id) ->
  Forall (fun o => hop_rid o <> cx_rid x) ops ->
  (cap = 0 \/ N.of_nat (length ops) < cap) ->
  snd (initial_read (fst (run_hist cap a t (fst (before_step cap a t x c)) ops)) (cx_rid x)) = id.
Proof. exact clientid_survives_interleaving. Qed.
Print Assumptions C03_clientid_survives_interleaving.

(** A disallowed ClientID in the DoH path, in any letter case: REFUSED. *)
Theorem C03_disallowed_clientid_doh_path_refused :
  forall blocked hosts t sni r ip q rid l c0,
  Proofs.ClientID.path_id (Model.ClientID.d_path r) l -> Base.Dom.valid_label l ->
  In (ECid c0) blocked -> lower c0 = lower l ->
  handle_before_ctx (new_access [] blocked hosts) t (mkCtx PHTTPS sni (Some r) ip q rid) = BRefused.
Proof. exact disallowed_clientid_doh_path_refused. Qed.
Print Assumptions C03_disallowed_clientid_doh_path_refused.

(** A disallowed ClientID as the label in front of the configured server
    name (DoT / DoQ connection; DoH to /dns-query through TLS server name or
    Host header), in any letter case: REFUSED. *)
Theorem C03_disallowed_clientid_server_name_refused :
  forall blocked hosts t x cli l c0,
  Proofs.ClientID.reaches_sni (cid_proto (cx_proto x)) (cx_http x) -> tc_server_name t <> [] ->
  Model.ClientID.server_name_of (cid_proto (cx_proto x)) (cx_sni x) (cx_http x) = inr cli ->
  Proofs.ClientID.immediate_sub cli (tc_server_name t) l -> Base.Dom.valid_label l ->
  In (ECid c0) blocked -> lower c0 = lower l ->
  handle_before_ctx (new_access [] blocked hosts) t x = BRefused.
Proof. exact disallowed_clientid_server_name_refused. Qed.
Print Assumptions C03_disallowed_clientid_server_name_refused.

(** Allow-list mode: a listed ClientID, presented in any letter case, admits
    the request from any address unless the name is blocked. *)
Theorem C03_allowed_clientid_admitted : forall allowed blocked hosts t x ip l c0,
  extract_clientid t x = Some (lower l) -> Base.Dom.valid_label l ->
  In (ECid c0) allowed -> lower c0 = lower l -> cx_ip x = Some ip ->
  (forall name qt, cx_q x = Some (name, qt) ->
     is_blocked_host (new_access allowed blocked hosts) (normalize_domain name) qt = false) ->
  handle_before_ctx (new_access allowed blocked hosts) t x = BContinue (Some (lower l)).
Proof. exact allowed_clientid_admitted. Qed.
Print Assumptions C03_allowed_clientid_admitted.

(** An invalid ClientID is answered SERVFAIL before the lists are consulted. *)
Theorem C03_invalid_clientid_servfail : forall a t sni r ip q rid l,
  Proofs.ClientID.path_id (Model.ClientID.d_path r) l -> ~ Base.Dom.valid_label l ->
  handle_before_ctx a t (mkCtx PHTTPS sni (Some r) ip q rid) = BServfail.
Proof. exact invalid_clientid_servfail. Qed.
Print Assumptions C03_invalid_clientid_servfail.

Theorem C03_invalid_server_name_servfail : forall a t x cli l,
  Proofs.ClientID.reaches_sni (cid_proto (cx_proto x)) (cx_http x) -> tc_server_name t <> [] ->
  Model.ClientID.server_name_of (cid_proto (cx_proto x)) (cx_sni x) (cx_http x) = inr cli ->
  Proofs.ClientID.immediate_sub cli (tc_server_name t) l -> ~ Base.Dom.valid_label l ->
  handle_before_ctx a t x = BServfail.
Proof. exact invalid_server_name_servfail. Qed.
Print Assumptions C03_invalid_server_name_servfail.

(** Plain DNS and DNSCrypt requests are decided as requests without
    ClientID, whatever else the context carries. *)
Theorem C03_plain_protocol_decision : forall a t x,
  ~ secure_proto (cx_proto x) ->
  handle_before_ctx a t x = handle_before a (cx_proto x) (Some []) (cx_ip x) (cx_q x).
Proof. exact plain_protocol_decision. Qed.
Print Assumptions C03_plain_protocol_decision.

(** Non-vacuity of the new premises. *)
Example C03_disallowed_doh_path_satisfiable :
  Proofs.ClientID.path_id (Model.ClientID.d_path ex_doh) [75;105;68] /\ Base.Dom.valid_label [75;105;68] /\
  In (ECid ex_kid) [ECid ex_kid] /\ lower ex_kid = lower [75;105;68].
Proof. exact disallowed_doh_path_satisfiable. Qed.

Example C03_disallowed_server_name_satisfiable :
  Proofs.ClientID.reaches_sni (cid_proto (cx_proto (ex_dot_ctx ex_sni 7))) (cx_http (ex_dot_ctx ex_sni 7)) /\
  tc_server_name ex_tls <> [] /\
  Model.ClientID.server_name_of (cid_proto PTLS) (Some ex_sni) None = inr ex_sni /\
  Proofs.ClientID.immediate_sub ex_sni (tc_server_name ex_tls) [75;105;68] /\
  handle_before_ctx (new_access [] [ECid ex_kid] []) ex_tls (ex_dot_ctx ex_sni 7) = BRefused /\
  handle_before_ctx (new_access [] [ECid ex_kid] []) ex_tls
    (mkCtx PHTTPS None (Some ex_doh) (Some ex_ip) None 8) = BRefused.
Proof. exact disallowed_server_name_satisfiable. Qed.

Example C03_allowed_clientid_satisfiable :
  extract_clientid ex_tls (ex_dot_ctx ex_sni 7) = Some (lower [75;105;68]) /\
  handle_before_ctx (new_access [ECid ex_kid] [EIP ex_ip] []) ex_tls (ex_dot_ctx ex_sni 7) =
    BContinue (Some [107;105;100]).
Proof. exact allowed_clientid_satisfiable. Qed.

Example C03_invalid_clientid_satisfiable :
  Proofs.ClientID.immediate_sub ex_bad_sni ex_srv [98;95;100] /\ ~ Base.Dom.valid_label [98;95;100] /\
  extract_clientid ex_tls (ex_dot_ctx ex_bad_sni 7) = None /\
  handle_before_ctx (new_access [] [EIP ex_ip] []) ex_tls (ex_dot_ctx ex_bad_sni 7) = BServfail.
Proof. exact invalid_clientid_satisfiable. Qed.

Example C03_blocked_ctx_satisfiable :
  extract_clientid ex_tls (ex_dot_ctx ex_sni 7) = Some [107;105;100] /\
  blocked_request (new_access [] [ECid ex_kid] []) (Some ex_ip) [107;105;100] None /\
  ~ blocked_request (new_access [] [ECid ex_cid] []) (Some ex_ip) [107;105;100] None.
Proof. exact blocked_ctx_satisfiable. Qed.

(** The window of C03_clientid_survives_interleaving is tight: with a cache
    of two entries, two interleaved admitted requests with ClientIDs make the
    first request lose its ClientID; with three entries they do not. *)
Example C03_interleaving_window_tight :
  let a := new_access [] [] [] in
  let x := ex_dot_ctx ex_sni 1 in
  let ops := [HBefore (ex_dot_ctx ex_sni 2); HBefore (ex_dot_ctx ex_sni 3)] in
  handle_before_ctx a ex_tls x = BContinue (Some [107;105;100]) /\
  Forall (fun o => hop_rid o <> cx_rid x) ops /\
  N.of_nat (length ops) = 2 /\
  snd (initial_read (fst (run_hist 2 a ex_tls (fst (before_step 2 a ex_tls x [])) ops)) (cx_rid x)) = [] /\
  snd (initial_read (fst (run_hist 3 a ex_tls (fst (before_step 3 a ex_tls x [])) ops)) (cx_rid x)) = [107;105;100].
Proof. exact interleaving_window_tight. Qed.

(** * The access settings across access/set, the saved configuration and a
      restart (round 4) *)

(** What validateAccessSet answers, in the order of its checks: a string
    twice in the allowed list, in the disallowed list, in the blocked hosts,
    a string on both client lists (compared as typed); otherwise valid. *)
Theorem C03_access_set_validation : forall l,
  match validate_access_set l with
  | None => well_formed l
  | Some ErrDupAllowed => ~ NoDup (allowed_texts l)
  | Some ErrDupBlocked => NoDup (allowed_texts l) /\ ~ NoDup (blocked_texts l)
  | Some ErrDupHosts => NoDup (allowed_texts l) /\ NoDup (blocked_texts l) /\ ~ NoDup (host_texts l)
  | Some ErrIntersect =>
      NoDup (allowed_texts l) /\ NoDup (blocked_texts l) /\ NoDup (host_texts l) /\
      exists x, In x (allowed_texts l) /\ In x (blocked_texts l)
  | Some _ => False
  end.
Proof. exact validate_access_set_spec. Qed.
Print Assumptions C03_access_set_validation.

(** access/set answers 200 exactly for a decodable, well-formed request all
    of whose client strings are an address, a CIDR or a valid ClientID. *)
Theorem C03_access_set_accepted_iff : forall w body,
  snd (handle_access_set w body) = SetOK <-> exists l, body = Some l /\ accepted l.
Proof. exact set_ok_iff. Qed.
Print Assumptions C03_access_set_accepted_iff.

Theorem C03_buildable_iff : forall l,
  buildable l <-> usable (ls_allowed l) /\ usable (ls_blocked l).
Proof. exact buildable_iff. Qed.
Print Assumptions C03_buildable_iff.

Theorem C03_unusable_client_string : forall c,
  classify c = None <-> cs_parsed c = POther /\ ~ Base.Dom.valid_label (cs_text c).
Proof. exact classify_none. Qed.
Print Assumptions C03_unusable_client_string.

(** A rejected request changes neither the running server nor the file. *)
Theorem C03_rejected_set_changes_nothing : forall w body,
  snd (handle_access_set w body) <> SetOK -> fst (handle_access_set w body) = w.
Proof. exact set_rejected_unchanged. Qed.
Print Assumptions C03_rejected_set_changes_nothing.

(** An accepted request: what is saved is what is in force is what was
    sent. *)
Theorem C03_accepted_set_saved : forall w l w',
  handle_access_set w (Some l) = (w', SetOK) ->
  w_disk w' = sv_conf (w_srv w') /\ sv_conf (w_srv w') = l.
Proof. exact saved_is_in_force_after_set. Qed.
Print Assumptions C03_accepted_set_saved.

(** After every step of every history from a start of the process: the
    manager in force is the one built from the lists in force, and these are
    the saved ones (with the default blocked hosts filled in after a start
    from an empty blocked-hosts list). *)
Theorem C03_persist_invariant : forall t c0 w0 ops,
  boot c0 = Some w0 -> inv (fst (prun t w0 ops)).
Proof. exact reachable_inv. Qed.
Print Assumptions C03_persist_invariant.

(** The server always comes up again from what it saved. *)
Theorem C03_restart_never_fails : forall t c0 w0 ops,
  boot c0 = Some w0 -> exists w1, restart (fst (prun t w0 ops)) = Some w1.
Proof. exact reachable_restarts. Qed.
Print Assumptions C03_restart_never_fails.

(** For every history of access/set (accepted or rejected), other saves,
    restarts, access/list and requests: the running server holds the lists
    the API accepted last ([in_force]), and the server that comes up after a
    restart decides every request by them: it is the very same server when
    their blocked-hosts list is not empty; the three default names are
    blocked in addition when it is empty. *)
Theorem C03_restart_keeps_last_set : forall t c0 w0 ops,
  boot c0 = Some w0 ->
  let w := fst (prun t w0 ops) in
  let l := in_force (init_default_settings c0) ops in
  sv_conf (w_srv w) = l /\
  exists a w1,
    new_access_ctx (init_default_settings l) = inl a /\
    restart w = Some w1 /\
    w_srv w1 = mkServer (init_default_settings l) a /\
    (forall x, probe t w1 x = handle_before_ctx a t x) /\
    (ls_hosts l <> [] -> w_srv w1 = w_srv w).
Proof. exact restart_keeps_last_set. Qed.
Print Assumptions C03_restart_keeps_last_set.

(** The start-up default rule (initDefaultSettings; upstream's documented
    default for blocked_hosts), for every history: when the blocked-hosts
    list accepted last is empty, the server that comes up runs with the
    client lists accepted last and version.bind, id.server, hostname.bind as
    blocked hosts, access/list reports exactly that, the file is untouched,
    and every client is decided as by the server that went down. *)
Theorem C03_restart_empty_blocked_hosts_defaults : forall t c0 w0 ops,
  boot c0 = Some w0 ->
  let w := fst (prun t w0 ops) in
  let l := in_force (init_default_settings c0) ops in
  ls_hosts l = [] ->
  exists w1,
    restart w = Some w1 /\
    sv_conf (w_srv w1) = mkLists (ls_allowed l) (ls_blocked l) default_blocked_hosts /\
    handle_access_list w1 =
      (allowed_texts l, blocked_texts l, [version_bind; id_server; hostname_bind]) /\
    w_disk w1 = w_disk w /\
    (forall ip id, is_blocked_client (sv_access (w_srv w1)) ip id =
                   is_blocked_client (sv_access (w_srv w)) ip id).
Proof. exact restart_empty_blocked_hosts_defaults. Qed.
Print Assumptions C03_restart_empty_blocked_hosts_defaults.

(** The two client lists have no such rule: a start never changes them. *)
Theorem C03_start_keeps_client_lists : forall l,
  ls_allowed (init_default_settings l) = ls_allowed l /\
  ls_blocked (init_default_settings l) = ls_blocked l.
Proof. exact init_default_sides. Qed.
Print Assumptions C03_start_keeps_client_lists.

Theorem C03_set_then_restart : forall w l w',
  handle_access_set w (Some l) = (w', SetOK) -> ls_hosts l <> [] -> restart w' = Some w'.
Proof. exact set_then_restart. Qed.
Print Assumptions C03_set_then_restart.

(** "Never served" across the restart: a request the lists accepted last
    exclude (address, ClientID or blocked name) gets no reply over UDP /
    DNSCrypt and REFUSED elsewhere from the server that comes up. *)
Theorem C03_excluded_after_restart : forall t c0 w0 ops a w1 x id,
  boot c0 = Some w0 ->
  new_access_ctx (in_force (init_default_settings c0) ops) = inl a ->
  restart (fst (prun t w0 ops)) = Some w1 ->
  extract_clientid t x = Some id ->
  blocked_request a (cx_ip x) id (cx_q x) ->
  probe t w1 x = pre_blocked (cx_proto x).
Proof. exact excluded_after_restart. Qed.
Print Assumptions C03_excluded_after_restart.

(** "All other requests are served" across the restart (accepted
    blocked-hosts list not empty). *)
Theorem C03_admitted_after_restart : forall t c0 w0 ops a w1 x id,
  boot c0 = Some w0 ->
  new_access_ctx (in_force (init_default_settings c0) ops) = inl a ->
  ls_hosts (in_force (init_default_settings c0) ops) <> [] ->
  restart (fst (prun t w0 ops)) = Some w1 ->
  extract_clientid t x = Some id ->
  ~ blocked_request a (cx_ip x) id (cx_q x) ->
  probe t w1 x = BContinue (match id with [] => None | _ => Some id end).
Proof. exact admitted_after_restart. Qed.
Print Assumptions C03_admitted_after_restart.

(** Non-vacuity: a client is disallowed through the API, the process
    restarts, the client gets no reply. *)
Example C03_restart_premises_satisfiable :
  exists w0 a w1,
    boot ex_c0 = Some w0 /\
    accepted ex_set /\
    in_force (init_default_settings ex_c0) [PSet (Some ex_set); PList] = ex_set /\
    new_access_ctx ex_set = inl a /\
    restart (fst (prun ex_tls0 w0 [PSet (Some ex_set); PList])) = Some w1 /\
    extract_clientid ex_tls0 (ex_udp ex_x_test) = Some [] /\
    blocked_request a (Some ex_ip) [] (Some (ex_x_test, 1)) /\
    probe ex_tls0 w0 (ex_udp ex_x_test) = BContinue None /\
    probe ex_tls0 w1 (ex_udp ex_x_test) = BDrop.
Proof. exact restart_premises_satisfiable. Qed.

Example C03_rejected_requests :
  validate_access_set (mkLists [ex_ip_str; ex_ip_str] [] []) = Some ErrDupAllowed /\
  validate_access_set (mkLists [] [ex_kid_str; ex_ip_str; ex_kid_str] []) = Some ErrDupBlocked /\
  validate_access_set (mkLists [] [] [ex_host_line; ex_host_line]) = Some ErrDupHosts /\
  validate_access_set (mkLists [ex_kid_str] [ex_ip_str; ex_kid_str] []) = Some ErrIntersect /\
  snd (handle_access_set (mkWorld (mkServer ex_c0 (new_access [] [] [])) ex_c0)
         (Some (mkLists [mkCStr [98;95;100] POther] [] []))) = ErrBadAllowed /\
  snd (handle_access_set (mkWorld (mkServer ex_c0 (new_access [] [] [])) ex_c0)
         (Some (mkLists [] [mkCStr [] POther] []))) = ErrBadBlocked.
Proof. exact rejected_requests. Qed.

(** Witness for the default rule: with an emptied blocked-hosts list the
    running server answers a query for version.bind, the one that comes up
    after a restart refuses it, and access/list shows the three default
    names again. *)
Example C03_restart_empty_hosts_gets_defaults :
  exists w0 w w1,
    boot ex_c0 = Some w0 /\
    handle_access_set w0 (Some (mkLists [] [] [])) = (w, SetOK) /\
    restart w = Some w1 /\
    probe ex_tls0 w (ex_tcp (version_bind ++ [46])) = BContinue None /\
    probe ex_tls0 w1 (ex_tcp (version_bind ++ [46])) = BRefused /\
    handle_access_list w = ([], [], []) /\
    handle_access_list w1 = ([], [], [version_bind; id_server; hostname_bind]).
Proof. exact restart_empty_hosts_gets_defaults. Qed.

(** The variant that calls the save callback before s.conf's lists are
    replaced leaves the previous lists in the file ... *)
Theorem C03_early_persist_lags : forall w l w',
  handle_access_set_early w (Some l) = (w', SetOK) ->
  w_disk w' = sv_conf (w_srv w) /\ sv_conf (w_srv w') = l.
Proof. exact early_persist_lags. Qed.
Print Assumptions C03_early_persist_lags.

(** ... and violates the property: the client just disallowed gets no reply
    from the running server and is served after a restart. *)
Theorem C03_early_persist_refuted :
  exists c0 l w0 w w1 x a,
    boot c0 = Some w0 /\
    handle_access_set_early w0 (Some l) = (w, SetOK) /\
    restart w = Some w1 /\
    new_access_ctx l = inl a /\ ls_hosts l <> [] /\
    blocked_request a (cx_ip x) [] (cx_q x) /\
    probe ex_tls0 w x = BDrop /\
    probe ex_tls0 w1 x = BContinue None.
Proof. exact early_persist_refuted. Qed.
Print Assumptions C03_early_persist_refuted.

(** * The question section: class and question count (round 7) *)

(** HandleBefore reads the name and the type of the single question; the
    verdict is the same for every class (IN, CH, HS, NONE, ANY, any value). *)
Theorem C03_blocked_host_ignores_class : forall a p cid ip name qt c1 c2,
  handle_before_msg a p cid ip [mkQ name qt c1] = handle_before_msg a p cid ip [mkQ name qt c2].
Proof. exact blocked_host_ignores_class. Qed.
Print Assumptions C03_blocked_host_ignores_class.

(** A name on the blocked-hosts list, asked with any class: no reply over
    UDP / DNSCrypt, REFUSED elsewhere ... *)
Theorem C03_blocked_host_any_class : forall a p id ip name qt c,
  is_blocked_host a (normalize_domain name) qt = true ->
  handle_before_msg a p (Some id) ip [mkQ name qt c] = pre_blocked p.
Proof. exact blocked_host_any_class. Qed.
Print Assumptions C03_blocked_host_any_class.

(** ... and whatever the handler is, it does not run. *)
Theorem C03_blocked_host_any_class_not_served :
  forall (S Req Resp : Type) (handler : S -> Req -> S * Resp) a p id ip name qt c cache st rq,
  is_blocked_host a (normalize_domain name) qt = true ->
  serve handler a p (Some id) ip (the_question [mkQ name qt c]) cache st rq =
  (st, cache, expected_refusal p).
Proof. exact blocked_host_any_class_not_served. Qed.
Print Assumptions C03_blocked_host_any_class_not_served.

(** The code tests the blocked hosts only for a message with exactly one
    question: with none or several only the client decides. *)
Theorem C03_question_count : forall a p cid ip qs,
  length qs <> 1%nat ->
  handle_before_msg a p cid ip qs = handle_before a p cid ip None.
Proof. exact question_count. Qed.
Print Assumptions C03_question_count.

(** The variant that tests the blocked hosts for class IN only is refuted by
    the query the default list exists for: CH TXT version.bind. *)
Theorem C03_in_only_refuted :
  let q := mkQ version_bind_fqdn 16 3 in
  is_blocked_host default_access (normalize_domain (q_name q)) (q_type q) = true /\
  handle_before default_access PTCP (Some []) (Some ex_ip) (the_question [q]) = BRefused /\
  handle_before default_access PUDP (Some []) (Some ex_ip) (the_question [q]) = BDrop /\
  handle_before default_access PTCP (Some []) (Some ex_ip) (the_question_in_only [q]) = BContinue None /\
  handle_before default_access PTCP (Some []) (Some ex_ip)
    (the_question_in_only [mkQ version_bind_fqdn 16 1]) = BRefused.
Proof. exact in_only_refuted. Qed.
Print Assumptions C03_in_only_refuted.

(** * The configuration path home -> dnsforward (round 8) *)

(** newDNSTLSConfig with encryption enabled and a key pair that loads hands
    the configured server_name and strict flag to the DNS server for every
    combination of the HTTPS / DoT / DoQ ports and bind addresses. *)
Theorem C03_server_name_handed_over_regardless_of_listeners : forall s addrs,
  Model.TLSSettings.t_enabled s = true ->
  exists d, Model.TLSGlue.new_dns_tls_config false s true addrs = Some d /\
            Model.TLSGlue.dt_server_name d = Model.TLSSettings.t_server_name s /\
            Model.TLSGlue.dt_strict d = Model.TLSSettings.t_strict s.
Proof. exact server_name_handed_over. Qed.
Print Assumptions C03_server_name_handed_over_regardless_of_listeners.

(** The hook's verdict does not depend on which listeners are enabled. *)
Theorem C03_decision_independent_of_listeners : forall a s1 s2 addrs1 addrs2 x,
  Model.TLSSettings.t_enabled s1 = true -> Model.TLSSettings.t_enabled s2 = true ->
  Model.TLSSettings.t_server_name s1 = Model.TLSSettings.t_server_name s2 ->
  Model.TLSSettings.t_strict s1 = Model.TLSSettings.t_strict s2 ->
  before_via_home a s1 true addrs1 x = before_via_home a s2 true addrs2 x.
Proof. exact decision_independent_of_listeners. Qed.
Print Assumptions C03_decision_independent_of_listeners.

(** Composed with the access decision: a disallowed ClientID in front of the
    configured server name is REFUSED whatever listeners are on ... *)
Theorem C03_disallowed_clientid_via_home_refused : forall blocked hosts s addrs x cli l c0,
  Model.TLSSettings.t_enabled s = true ->
  Proofs.ClientID.reaches_sni (cid_proto (cx_proto x)) (cx_http x) ->
  Model.TLSSettings.t_server_name s <> [] ->
  Model.ClientID.server_name_of (cid_proto (cx_proto x)) (cx_sni x) (cx_http x) = inr cli ->
  Proofs.ClientID.immediate_sub cli (Model.TLSSettings.t_server_name s) l -> Base.Dom.valid_label l ->
  In (ECid c0) blocked -> lower c0 = lower l ->
  before_via_home (new_access [] blocked hosts) s true addrs x = Some BRefused.
Proof. exact disallowed_clientid_via_home_refused. Qed.
Print Assumptions C03_disallowed_clientid_via_home_refused.

(** ... and an allowed one admits. *)
Theorem C03_allowed_clientid_via_home_admitted : forall allowed blocked hosts s addrs x ip l c0,
  Model.TLSSettings.t_enabled s = true ->
  extract_clientid (mkTlsConf (Model.TLSSettings.t_server_name s) (Model.TLSSettings.t_strict s)) x = Some (lower l) ->
  Base.Dom.valid_label l -> In (ECid c0) allowed -> lower c0 = lower l -> cx_ip x = Some ip ->
  (forall name qt, cx_q x = Some (name, qt) ->
     is_blocked_host (new_access allowed blocked hosts) (normalize_domain name) qt = false) ->
  before_via_home (new_access allowed blocked hosts) s true addrs x = Some (BContinue (Some (lower l))).
Proof. exact allowed_clientid_via_home_admitted. Qed.
Print Assumptions C03_allowed_clientid_via_home_admitted.

Example C03_via_home_premises_satisfiable :
  let s := mk_setts true ex_srv true 0 0 853 in
  Model.TLSSettings.t_enabled s = true /\ Model.TLSSettings.t_server_name s <> [] /\
  Proofs.ClientID.reaches_sni (cid_proto PQUIC) None /\
  Model.ClientID.server_name_of (cid_proto PQUIC) (Some ex_sni) None = inr ex_sni /\
  Proofs.ClientID.immediate_sub ex_sni (Model.TLSSettings.t_server_name s) [75;105;68] /\
  before_via_home (new_access [] [ECid ex_kid] []) s true false ex_doq_ctx = Some BRefused.
Proof. exact via_home_premises_satisfiable. Qed.

(** The variant that hands the server name over only with the DoT port set
    is refuted: DoH and DoQ on, DoT off, the disallowed ClientID is let
    through and the allowed one refused. *)
Theorem C03_dot_only_refuted :
  let s := mk_setts true ex_srv false 443 0 853 in
  let a := new_access [] [ECid ex_kid] [] in
  let al := new_access [ECid ex_kid] [] [] in
  before_via_home a s true true ex_doh_name_ctx = Some BRefused /\
  before_via_home a s true true ex_doq_ctx = Some BRefused /\
  before_via_home_dot_only a s true true ex_doh_name_ctx = Some (BContinue None) /\
  before_via_home_dot_only a s true true ex_doq_ctx = Some (BContinue None) /\
  before_via_home al s true true ex_doq_ctx = Some (BContinue (Some [107;105;100])) /\
  before_via_home_dot_only al s true true ex_doq_ctx = Some BRefused /\
  before_via_home_dot_only a (mk_setts true ex_srv false 443 853 0) true true ex_doh_name_ctx = Some BRefused.
Proof. exact dot_only_refuted. Qed.
Print Assumptions C03_dot_only_refuted.

(** C03: access lists.  Only statements here; proofs live in Proofs/Access.v. *)
From Coq Require Import List NArith Bool.
From AGH Require Import Base.Run Base.NetAddr Base.RuleEngine Model.Access Proofs.Access.
Import ListNotations.
Local Open Scope N_scope.

(** Allow-list mode (the allowed list has entries): a client is admitted
    exactly when its address is listed (literally, or inside a listed CIDR of
    any length after dropping the zone) or its ClientID is listed. *)
Theorem C03_allowlist_mode : forall allowed blocked hosts ip id,
  has_entries allowed ->
  (admitted (new_access allowed blocked hosts) (Some ip) id <->
   ip_listed allowed ip \/ cid_listed allowed id).
Proof. exact allowlist_mode_spec. Qed.
Print Assumptions C03_allowlist_mode.

(** ... and the disallowed list is then ignored. *)
Theorem C03_allowlist_mode_ignores_disallowed : forall allowed b1 b2 hosts ip id,
  has_entries allowed ->
  fst (is_blocked_client (new_access allowed b1 hosts) ip id) =
  fst (is_blocked_client (new_access allowed b2 hosts) ip id).
Proof. exact allowlist_mode_ignores_blocked. Qed.
Print Assumptions C03_allowlist_mode_ignores_disallowed.

(** Block-list mode (no allowed entries): excluded exactly when the address
    or the ClientID is disallowed. *)
Theorem C03_blocklist_mode : forall blocked hosts ip id,
  excluded (new_access [] blocked hosts) (Some ip) id <->
  ip_listed blocked ip \/ cid_listed blocked id.
Proof. exact blocklist_mode_spec. Qed.
Print Assumptions C03_blocklist_mode.

(** CIDR membership is the arithmetic one for every prefix length. *)
Theorem C03_prefix_membership : forall p a, prefix_contains p a = true <-> in_block p a.
Proof. exact prefix_contains_spec. Qed.
Print Assumptions C03_prefix_membership.

(** An excluded client or a blocked name is not served: whatever the request
    handler is (resolution, filtering, query log, statistics), it does not
    run and its state is unchanged, the ClientID cache is unchanged; no reply
    over UDP / DNSCrypt, REFUSED over every other transport. *)
Theorem C03_blocked_not_served :
  forall (S Req Resp : Type) (handler : S -> Req -> S * Resp) a p ip id q cache st rq,
  blocked_request a ip id q ->
  serve handler a p (Some id) ip q cache st rq = (st, cache, expected_refusal p).
Proof. exact @blocked_not_served. Qed.
Print Assumptions C03_blocked_not_served.

(** All other requests are handed to the handler. *)
Theorem C03_others_served :
  forall (S Req Resp : Type) (handler : S -> Req -> S * Resp) a p ip id q cache st rq,
  ~ blocked_request a ip id q ->
  serve handler a p (Some id) ip q cache st rq =
  (fst (handler st rq), match id with [] => cache | _ => id :: cache end,
   Answer (snd (handler st rq))).
Proof. exact @others_served. Qed.
Print Assumptions C03_others_served.

(** Non-vacuity. *)
Example C03_allowlist_premises_satisfiable :
  has_entries [ENet ex_net; ECid ex_cid] /\
  admitted (new_access [ENet ex_net; ECid ex_cid] [EIP ex_ip] []) (Some ex_ip) [] /\
  admitted (new_access [ENet ex_net; ECid ex_cid] [] []) (Some (mkAddr V4 5 [])) (lower ex_cid) /\
  excluded (new_access [ENet ex_net; ECid ex_cid] [] []) (Some (mkAddr V4 5 [])) [120].
Proof. exact allowlist_premises_satisfiable. Qed.

Example C03_blocklist_premises_satisfiable :
  excluded (new_access [] [ENet ex_net] []) (Some ex_ip) [] /\
  excluded (new_access [] [ECid ex_cid] []) (Some (mkAddr V6 1 [])) (lower ex_cid) /\
  admitted (new_access [] [ECid ex_cid] []) (Some (mkAddr V6 1 [])) [120].
Proof. exact blocklist_premises_satisfiable. Qed.

Example C03_blocked_request_satisfiable :
  blocked_request (new_access [] [] [ex_host_rule]) (Some ex_ip) []
    (Some ([66;46;97;46;84;69;83;84;46], 1)) /\
  ~ blocked_request (new_access [] [] [ex_host_rule]) (Some ex_ip) []
    (Some ([120;46;116;101;115;116;46], 1)).
Proof. exact blocked_request_satisfiable. Qed.

(** C04: persistent-client registry.  Only statements; proofs in Proofs/ClientIndex.v. *)
From AGH Require Import Base.Run Model.ClientIndex Proofs.ClientIndex.
Local Open Scope N_scope.

Theorem C04_failed_op_is_noop : forall ix o ix' e,
  step ix o = (ix', e) -> e <> EOk -> ix' = ix.
Proof. exact failed_op_is_noop. Qed.
Print Assumptions C04_failed_op_is_noop.

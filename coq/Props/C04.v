(** C04: requests map to one persistent client by fixed precedence; the
    registry stays consistent.  Only statements; proofs in Proofs/ClientIndex.v. *)
From Coq Require Import ZArith Sorting.Sorted.
From AGH Require Import Base.Run Model.ClientIndex Proofs.ClientIndex.
From AGH Require Import Model.ClientIDCache Proofs.ClientSettings Proofs.ClientIDCache.
Local Open Scope N_scope.

(** The invariant (every map entry points at a stored client that lists the
    key, and conversely; hence names and identifiers pairwise disjoint; the
    subnet list strictly sorted by [subnet_compare]) holds in every state
    reachable from the empty registry by ANY history of add / update / remove,
    accepted or rejected. *)
Theorem C04_index_consistent : forall cfg (ops : list op), Inv (run cfg ops empty_index).
Proof. exact index_consistent. Qed.
Print Assumptions C04_index_consistent.

Theorem C04_invariant_preserved : forall cfg ix o, Inv ix -> Inv (fst (step cfg ix o)).
Proof. exact Inv_step. Qed.
Print Assumptions C04_invariant_preserved.

(** Under the invariant every name / ClientID / address / MAC / subnet
    resolves to a uid exactly when the client stored under that uid lists
    it, and such an owner is unique. *)
Theorem C04_resolution : forall ix, Inv ix -> resolution_statement ix /\ owners_unique_statement ix.
Proof. exact resolution_full. Qed.
Print Assumptions C04_resolution.

Theorem C04_resolution_any_history : forall cfg ops,
  resolution_statement (run cfg ops empty_index) /\ owners_unique_statement (run cfg ops empty_index).
Proof. exact resolution_any_history. Qed.
Print Assumptions C04_resolution_any_history.

(** An operation that returns an error leaves the registry equal. *)
Theorem C04_failed_op_is_noop : forall cfg ix o ix' e,
  step cfg ix o = (ix', e) -> e <> EOk -> ix' = ix.
Proof. exact failed_op_is_noop. Qed.
Print Assumptions C04_failed_op_is_noop.

(** An accepted add / update never shares a name or identifier with another stored client. *)
Theorem C04_add_rejects_sharing : forall cfg ix c ix',
  Inv ix -> step cfg ix (OAdd c) = (ix', EOk) ->
  forall u c', deref ix u = Some c' -> ~ shares c c'.
Proof. exact add_rejects_sharing. Qed.
Print Assumptions C04_add_rejects_sharing.

Theorem C04_update_rejects_sharing : forall cfg ix n c ix',
  Inv ix -> step cfg ix (OUpdate n c) = (ix', EOk) ->
  forall u c', deref ix u = Some c' -> c_name c' <> n -> ~ shares c c'.
Proof. exact update_rejects_sharing. Qed.
Print Assumptions C04_update_rejects_sharing.

(** The client chosen for a request (ClientID [id], address [a], DHCP oracle):
    owner of the ClientID, else owner of the exact address (zone included), else owner of the
    prefix of maximal length containing the address without its zone (first in
    subnet order), else owner of
    the MAC of the address' lease, else none; and this determines the answer. *)
Theorem C04_precedence : forall ix dhcp id a,
  Inv ix -> resolves ix dhcp id a (acf_find ix dhcp id a).
Proof. exact precedence. Qed.
Print Assumptions C04_precedence.

Theorem C04_precedence_unique : forall ix dhcp id a r1 r2,
  Inv ix -> resolves ix dhcp id a r1 -> resolves ix dhcp id a r2 -> r1 = r2.
Proof. exact precedence_unique. Qed.
Print Assumptions C04_precedence_unique.

(** The request's effective flags are the chosen client's exactly when it
    opts out of the global ones; blocked services independently; the stored
    record always exists (no nil client). *)
Theorem C04_settings : forall ix dhcp id a g,
  Inv ix ->
  match acf_find ix dhcp id a with
  | None => apply_client_filtering ix dhcp id a g = Some g
  | Some u => exists c, deref ix u = Some c /\ c_uid c = u /\
                        apply_client_filtering ix dhcp id a g = Some (apply_client c g)
  end.
Proof. exact settings_applied. Qed.
Print Assumptions C04_settings.

Theorem C04_settings_switches : forall c g,
  let s := apply_client c g in
  s_client_name s = c_name c /\
  (c_own_settings c = true ->
     s_filtering s = c_filtering c /\ s_safesearch s = c_safesearch c /\
     s_safebrowsing s = c_safebrowsing c /\ s_parental s = c_parental c) /\
  (c_own_settings c = false ->
     s_filtering s = s_filtering g /\ s_safesearch s = s_safesearch g /\
     s_safebrowsing s = s_safebrowsing g /\ s_parental s = s_parental g) /\
  (c_own_blocked c = true -> s_blocked s = c_blocked c) /\
  (c_own_blocked c = false -> s_blocked s = s_blocked g).
Proof. exact apply_client_spec. Qed.
Print Assumptions C04_settings_switches.

(** Non-vacuity: a concrete reachable registry with overlapping /8 /16 /24
    prefixes, a ClientID, an exact address, a lease MAC; rejected and accepted
    operations on it. *)
Example C04_premises_satisfiable :
  Inv ex_ix /\
  length (by_uid ex_ix) = 3%nat /\
  acf_find ex_ix ex_dhcp [99;108;105] (v4 10 9 9 9) = Some 2 /\
  acf_find ex_ix ex_dhcp [] (v4 10 1 2 3) = Some 2 /\
  acf_find ex_ix ex_dhcp [] (v4 10 1 2 77) = Some 2 /\
  acf_find ex_ix ex_dhcp [] (v4 10 1 200 1) = Some 3 /\
  acf_find ex_ix ex_dhcp [] (v4 10 200 0 1) = Some 1 /\
  acf_find ex_ix ex_dhcp [] (v4 192 168 1 5) = Some 3 /\
  acf_find ex_ix ex_dhcp [] (v4 8 8 8 8) = None /\
  acf_find ex_ix ex_dhcp [] (fe80_1 [101;116;104;48]) = Some 3 /\
  acf_find ex_ix ex_dhcp [] (fe80_1 [101;116;104;49]) = Some 1 /\
  acf_find ex_ix ex_dhcp [] (fe80_1 []) = Some 1 /\
  snd (step ex_cfg ex_ix (OAdd (ex_client 5 [101] [] [v4 10 9 9 9] [] [] true true))) = EIP /\
  snd (step ex_cfg ex_ix (OUpdate [97] (ex_client 6 [98] [] [] [([10;0;0;0], 8)] [] true true))) = EName /\
  snd (step ex_cfg ex_ix (OUpdate [97] (ex_client 7 [97] [] [] [([10;0;0;0], 8); ([10;2;0;0], 8)] [] false false))) = EOk.
Proof. exact example_registry. Qed.

(** * Acceptance of add / update: [Persistent.validate] with tags and upstreams *)

(** An accepted record has a name, an identifier, a uid, only allowed tags,
    and every upstream line is well-formed: empty, a comment, one address
    the upstream package accepts, or [[/d1/d2/]u1 u2 ..] with valid domain
    names up to the FIRST "/]", a non-empty upstream part and either the [#]
    exclusion or only acceptable addresses. *)
Theorem C04_validate_accepts : forall cfg c, validate cfg c = EOk -> valid_client cfg c.
Proof. exact validate_accepts. Qed.
Print Assumptions C04_validate_accepts.

Theorem C04_upstream_line : forall addr_ok l, parse_line addr_ok l = LOk -> line_ok addr_ok l.
Proof. exact parse_line_ok. Qed.
Print Assumptions C04_upstream_line.

(** ... and exactly those: the verdict "accepted" is characterised in both
    directions (a record is refused, by error or panic, iff it is not valid). *)
Theorem C04_upstream_line_iff : forall addr_ok l, parse_line addr_ok l = LOk <-> line_ok addr_ok l.
Proof. exact parse_line_iff. Qed.
Print Assumptions C04_upstream_line_iff.

Theorem C04_validate_iff : forall cfg c, validate cfg c = EOk <-> valid_client cfg c.
Proof. exact validate_iff. Qed.
Print Assumptions C04_validate_iff.

Theorem C04_validate_rejects_tag : forall cfg c t,
  In t (c_tags c) -> ~ In t (cfg_tags cfg) -> validate cfg c <> EOk.
Proof. exact validate_rejects_tag. Qed.
Print Assumptions C04_validate_rejects_tag.

Theorem C04_validate_rejects_upstream : forall cfg c l,
  In l (c_upstreams c) -> ~ line_ok (cfg_addr_ok cfg) l -> validate cfg c <> EOk.
Proof. exact validate_rejects_upstream. Qed.
Print Assumptions C04_validate_rejects_upstream.

(** In every reachable state every stored record is a validated one (tags
    allowed and sorted, upstream lines well-formed). *)
Theorem C04_stored_records_valid : forall cfg ops u c,
  deref (run cfg ops empty_index) u = Some c ->
  c_name c <> [] /\ ids_len c <> 0%nat /\
  Forall (line_ok (cfg_addr_ok cfg)) (c_upstreams c) /\
  Forall (fun t => In t (cfg_tags cfg)) (c_tags c) /\ Sorted names_le (c_tags c).
Proof. exact stored_records_valid. Qed.
Print Assumptions C04_stored_records_valid.

(** * From the registry to the request's effective blocked-service rules *)

(** [ApplyAdditionalFiltering] on settings that carry no BlockedServices value
    (what [dnsFilter.Settings()] returns): the chosen client's record is
    applied as in [C04_settings], and the service rules are the client's OWN
    list under the client's OWN pause schedule when it has its own blocked
    services, else the global list under the global schedule. *)
Theorem C04_effective_services : forall zone_off known ix dhcp gb t id a g,
  Inv ix -> s_blocked g = None ->
  exists s, apply_additional_filtering zone_off known ix dhcp gb t id a g = Some s /\
    match acf_find ix dhcp id a with
    | None => s = set_services (effective_services zone_off known gb t) g
    | Some u =>
        exists c, deref ix u = Some c /\ c_uid c = u /\
          s = set_services (expected_services zone_off known gb t (Some c))
                (apply_client c (set_services (effective_services zone_off known gb t) g))
    end.
Proof. exact additional_filtering_spec. Qed.
Print Assumptions C04_effective_services.

(** A client with its own blocked services never falls back to the global
    list: while its own schedule pauses, nothing is blocked for it. *)
Theorem C04_own_blocked_never_global : forall zone_off known ix dhcp gb t id a g u c b,
  Inv ix -> s_blocked g = None ->
  acf_find ix dhcp id a = Some u -> deref ix u = Some c ->
  c_own_blocked c = true -> c_blocked c = Some b ->
  exists s, apply_additional_filtering zone_off known ix dhcp gb t id a g = Some s /\
    s_services s = (if paused zone_off b t then [] else services_of known (b_ids b)) /\
    s_blocked s = Some b.
Proof. exact own_blocked_never_global. Qed.
Print Assumptions C04_own_blocked_never_global.

Theorem C04_global_blocked_otherwise : forall zone_off known ix dhcp gb t id a g,
  Inv ix -> s_blocked g = None ->
  (forall u c, acf_find ix dhcp id a = Some u -> deref ix u = Some c -> c_own_blocked c = false) ->
  exists s, apply_additional_filtering zone_off known ix dhcp gb t id a g = Some s /\
    s_services s = (if paused zone_off gb t then [] else services_of known (b_ids gb)).
Proof. exact global_blocked_otherwise. Qed.
Print Assumptions C04_global_blocked_otherwise.

Example C04_additional_premises_satisfiable :
  let ix := run ex_cfg [OAdd ex_c] empty_index in
  let z := fun (_ : N) (_ : Z) => 0%Z in
  let known := [[121;116]; [102;98]] in
  Inv ix /\
  option_map s_services (apply_additional_filtering z known ix (fun _ => None) ex_glob 43200000000000%Z [99] ([], []) ex_g)
    = Some [] /\
  option_map s_services (apply_additional_filtering z known ix (fun _ => None) ex_glob 129600000000000%Z [99] ([], []) ex_g)
    = Some [[121;116]] /\
  option_map s_services (apply_additional_filtering z known ix (fun _ => None) ex_glob 43200000000000%Z [] ([], []) ex_g)
    = Some [[102;98]].
Proof. exact example_additional. Qed.

(** * The ClientID hand-over HandleBefore -> processInitial *)

(** For ANY interleaving of requests and any cache configuration: a request
    whose HandleBefore extracted no ClientID reads none in processInitial,
    whatever other requests cached (the key is the request's own unique
    RequestID). *)
Theorem C04_handover_no_inherit : forall cf evs rid,
  (forall cid, In (EvBefore rid cid) evs -> cid = []) ->
  seen_after cf evs rid = [].
Proof. exact no_inherit. Qed.
Print Assumptions C04_handover_no_inherit.

(** A ClientID of any length that the cache admits (the server's
    configuration admits every length) is read back unchanged, whatever
    happened before, as long as fewer than MaxCount events of other requests
    lie between the two stages of this request. *)
Theorem C04_handover_survives : forall cf evs1 evs2 rid cid,
  cid <> [] -> fits cf cid ->
  (forall e, In e evs2 -> ~ touches rid e) ->
  (length evs2 < cc_max_count cf)%nat ->
  seen_after cf (evs1 ++ EvBefore rid cid :: evs2) rid = cid.
Proof. exact survives. Qed.
Print Assumptions C04_handover_survives.

(** Both together, for a RequestID that is the request's own: processInitial
    reads exactly what HandleBefore of the same request extracted. *)
Theorem C04_handover_exact : forall cf evs1 evs2 rid cid,
  fits cf cid ->
  (forall e, In e evs1 -> ~ touches rid e) ->
  (forall e, In e evs2 -> ~ touches rid e) ->
  (length evs2 < cc_max_count cf)%nat ->
  seen_after cf (evs1 ++ EvBefore rid cid :: evs2) rid = cid.
Proof. exact handover_exact. Qed.
Print Assumptions C04_handover_exact.

Theorem C04_handover_server_conf_fits : forall v, fits server_cache_conf v.
Proof. exact server_conf_fits. Qed.
Print Assumptions C04_handover_server_conf_fits.

(** The MaxCount bound is real (LRU eviction), shown on MaxCount = 2. *)
Example C04_handover_eviction_witness :
  let cf := {| cc_max_count := 2; cc_max_elem := None |} in
  seen_after cf [EvBefore 1 [97]; EvBefore 2 [98]; EvBefore 3 [99]] 1 = [] /\
  seen_after cf [EvBefore 1 [97]; EvBefore 2 [98]] 1 = [97].
Proof. exact eviction_witness. Qed.

(** C04: requests map to one persistent client by fixed precedence; the
    registry stays consistent.  Only statements; proofs in Proofs/ClientIndex.v. *)
From AGH Require Import Base.Run Model.ClientIndex Proofs.ClientIndex.
Local Open Scope N_scope.

(** The invariant (every map entry points at a stored client that lists the
    key, and conversely; hence names and identifiers pairwise disjoint; the
    subnet list strictly sorted by [subnet_compare]) holds in every state
    reachable from the empty registry by ANY history of add / update / remove,
    accepted or rejected. *)
Theorem C04_index_consistent : forall ops : list op, Inv (run ops empty_index).
Proof. exact index_consistent. Qed.
Print Assumptions C04_index_consistent.

Theorem C04_invariant_preserved : forall ix o, Inv ix -> Inv (fst (step ix o)).
Proof. exact Inv_step. Qed.
Print Assumptions C04_invariant_preserved.

(** Under the invariant every name / ClientID / address / MAC / subnet
    resolves to a uid exactly when the client stored under that uid lists
    it, and such an owner is unique. *)
Theorem C04_resolution : forall ix, Inv ix -> resolution_statement ix /\ owners_unique_statement ix.
Proof. exact resolution_full. Qed.
Print Assumptions C04_resolution.

Theorem C04_resolution_any_history : forall ops,
  resolution_statement (run ops empty_index) /\ owners_unique_statement (run ops empty_index).
Proof. exact resolution_any_history. Qed.
Print Assumptions C04_resolution_any_history.

(** An operation that returns an error leaves the registry equal. *)
Theorem C04_failed_op_is_noop : forall ix o ix' e,
  step ix o = (ix', e) -> e <> EOk -> ix' = ix.
Proof. exact failed_op_is_noop. Qed.
Print Assumptions C04_failed_op_is_noop.

(** An accepted add / update never shares a name or identifier with another stored client. *)
Theorem C04_add_rejects_sharing : forall ix c ix',
  Inv ix -> step ix (OAdd c) = (ix', EOk) ->
  forall u c', deref ix u = Some c' -> ~ shares c c'.
Proof. exact add_rejects_sharing. Qed.
Print Assumptions C04_add_rejects_sharing.

Theorem C04_update_rejects_sharing : forall ix n c ix',
  Inv ix -> step ix (OUpdate n c) = (ix', EOk) ->
  forall u c', deref ix u = Some c' -> c_name c' <> n -> ~ shares c c'.
Proof. exact update_rejects_sharing. Qed.
Print Assumptions C04_update_rejects_sharing.

(** The client chosen for a request (ClientID [id], address [a], DHCP oracle):
    owner of the ClientID, else owner of the exact address (zone included), else owner of the
    prefix of maximal length containing the address without its zone (first in
    subnet order), else owner of
    the MAC of the address' lease, else none; and this determines the answer. *)
Theorem C04_precedence : forall ix dhcp id a,
  Inv ix -> resolves ix dhcp id a (acf_find ix dhcp id a).
Proof. exact precedence. Qed.
Print Assumptions C04_precedence.

Theorem C04_precedence_unique : forall ix dhcp id a r1 r2,
  Inv ix -> resolves ix dhcp id a r1 -> resolves ix dhcp id a r2 -> r1 = r2.
Proof. exact precedence_unique. Qed.
Print Assumptions C04_precedence_unique.

(** The request's effective flags are the chosen client's exactly when it
    opts out of the global ones; blocked services independently; the stored
    record always exists (no nil client). *)
Theorem C04_settings : forall ix dhcp id a g,
  Inv ix ->
  match acf_find ix dhcp id a with
  | None => apply_client_filtering ix dhcp id a g = Some g
  | Some u => exists c, deref ix u = Some c /\ c_uid c = u /\
                        apply_client_filtering ix dhcp id a g = Some (apply_client c g)
  end.
Proof. exact settings_applied. Qed.
Print Assumptions C04_settings.

Theorem C04_settings_switches : forall c g,
  let s := apply_client c g in
  s_client_name s = c_name c /\
  (c_own_settings c = true ->
     s_filtering s = c_filtering c /\ s_safesearch s = c_safesearch c /\
     s_safebrowsing s = c_safebrowsing c /\ s_parental s = c_parental c) /\
  (c_own_settings c = false ->
     s_filtering s = s_filtering g /\ s_safesearch s = s_safesearch g /\
     s_safebrowsing s = s_safebrowsing g /\ s_parental s = s_parental g) /\
  (c_own_blocked c = true -> s_blocked s = c_blocked c) /\
  (c_own_blocked c = false -> s_blocked s = s_blocked g).
Proof. exact apply_client_spec. Qed.
Print Assumptions C04_settings_switches.

(** Non-vacuity: a concrete reachable registry with overlapping /8 /16 /24
    prefixes, a ClientID, an exact address, a lease MAC; rejected and accepted
    operations on it. *)
Example C04_premises_satisfiable :
  Inv ex_ix /\
  length (by_uid ex_ix) = 3%nat /\
  acf_find ex_ix ex_dhcp [99;108;105] (v4 10 9 9 9) = Some 2 /\
  acf_find ex_ix ex_dhcp [] (v4 10 1 2 3) = Some 2 /\
  acf_find ex_ix ex_dhcp [] (v4 10 1 2 77) = Some 2 /\
  acf_find ex_ix ex_dhcp [] (v4 10 1 200 1) = Some 3 /\
  acf_find ex_ix ex_dhcp [] (v4 10 200 0 1) = Some 1 /\
  acf_find ex_ix ex_dhcp [] (v4 192 168 1 5) = Some 3 /\
  acf_find ex_ix ex_dhcp [] (v4 8 8 8 8) = None /\
  acf_find ex_ix ex_dhcp [] (fe80_1 [101;116;104;48]) = Some 3 /\
  acf_find ex_ix ex_dhcp [] (fe80_1 [101;116;104;49]) = Some 1 /\
  acf_find ex_ix ex_dhcp [] (fe80_1 []) = Some 1 /\
  snd (step ex_ix (OAdd (ex_client 5 [101] [] [v4 10 9 9 9] [] [] true true))) = EIP /\
  snd (step ex_ix (OUpdate [97] (ex_client 6 [98] [] [] [([10;0;0;0], 8)] [] true true))) = EName /\
  snd (step ex_ix (OUpdate [97] (ex_client 7 [97] [] [] [([10;0;0;0], 8); ([10;2;0;0], 8)] [] false false))) = EOk.
Proof. exact example_registry. Qed.

(** C04: requests map to one persistent client by fixed precedence; the
    registry stays consistent.  Only statements; proofs in Proofs/ClientIndex.v. *)
From Coq Require Import ZArith Sorting.Sorted.
From AGH Require Import Base.Run Model.ClientIndex Proofs.ClientIndex.
From AGH Require Import Model.ClientIDCache Proofs.ClientSettings Proofs.ClientIDCache.
Local Open Scope N_scope.

(** The invariant (every map entry points at a stored client that lists the
    key, and conversely; hence names and identifiers pairwise disjoint; the
    subnet list strictly sorted by [subnet_compare]) holds in every state
    reachable from the empty registry by ANY history of add / update / remove,
    accepted or rejected. *)
Theorem C04_index_consistent : forall cfg (ops : list op), Inv (run cfg ops empty_index).
Proof. exact index_consistent. Qed.
Print Assumptions C04_index_consistent.

Theorem C04_invariant_preserved : forall cfg ix o, Inv ix -> Inv (fst (step cfg ix o)).
Proof. exact Inv_step. Qed.
Print Assumptions C04_invariant_preserved.

(** Under the invariant every name / ClientID / address / MAC / subnet
    resolves to a uid exactly when the client stored under that uid lists
    it, and such an owner is unique. *)
Theorem C04_resolution : forall ix, Inv ix -> resolution_statement ix /\ owners_unique_statement ix.
Proof. exact resolution_full. Qed.
Print Assumptions C04_resolution.

Theorem C04_resolution_any_history : forall cfg ops,
  resolution_statement (run cfg ops empty_index) /\ owners_unique_statement (run cfg ops empty_index).
Proof. exact resolution_any_history. Qed.
Print Assumptions C04_resolution_any_history.

(** An operation that returns an error leaves the registry equal. *)
Theorem C04_failed_op_is_noop : forall cfg ix o ix' e,
  step cfg ix o = (ix', e) -> e <> EOk -> ix' = ix.
Proof. exact failed_op_is_noop. Qed.
Print Assumptions C04_failed_op_is_noop.

(** An accepted add / update never shares a name or identifier with another stored client. *)
Theorem C04_add_rejects_sharing : forall cfg ix c ix',
  Inv ix -> step cfg ix (OAdd c) = (ix', EOk) ->
  forall u c', deref ix u = Some c' -> ~ shares c c'.
Proof. exact add_rejects_sharing. Qed.
Print Assumptions C04_add_rejects_sharing.

Theorem C04_update_rejects_sharing : forall cfg ix n c ix',
  Inv ix -> step cfg ix (OUpdate n c) = (ix', EOk) ->
  forall u c', deref ix u = Some c' -> c_name c' <> n -> ~ shares c c'.
Proof. exact update_rejects_sharing. Qed.
Print Assumptions C04_update_rejects_sharing.

(** The client chosen for a request (ClientID [id], address [a], DHCP oracle):
    owner of the ClientID, else owner of the exact address (zone included), else owner of the
    prefix of maximal length containing the address without its zone (first in
    subnet order), else owner of
    the MAC of the address' lease, else none; and this determines the answer. *)
Theorem C04_precedence : forall ix dhcp id a,
  Inv ix -> resolves ix dhcp id a (acf_find ix dhcp id a).
Proof. exact precedence. Qed.
Print Assumptions C04_precedence.

Theorem C04_precedence_unique : forall ix dhcp id a r1 r2,
  Inv ix -> resolves ix dhcp id a r1 -> resolves ix dhcp id a r2 -> r1 = r2.
Proof. exact precedence_unique. Qed.
Print Assumptions C04_precedence_unique.

(** The request's effective flags are the chosen client's exactly when it
    opts out of the global ones; blocked services independently; the stored
    record always exists (no nil client). *)
Theorem C04_settings : forall ix dhcp id a g,
  Inv ix ->
  match acf_find ix dhcp id a with
  | None => apply_client_filtering ix dhcp id a g = Some g
  | Some u => exists c, deref ix u = Some c /\ c_uid c = u /\
                        apply_client_filtering ix dhcp id a g = Some (apply_client c g)
  end.
Proof. exact settings_applied. Qed.
Print Assumptions C04_settings.

Theorem C04_settings_switches : forall c g,
  let s := apply_client c g in
  s_client_name s = c_name c /\
  (c_own_settings c = true ->
     s_filtering s = c_filtering c /\ s_safesearch s = c_safesearch c /\
     s_safebrowsing s = c_safebrowsing c /\ s_parental s = c_parental c) /\
  (c_own_settings c = false ->
     s_filtering s = s_filtering g /\ s_safesearch s = s_safesearch g /\
     s_safebrowsing s = s_safebrowsing g /\ s_parental s = s_parental g) /\
  (c_own_blocked c = true -> s_blocked s = c_blocked c) /\
  (c_own_blocked c = false -> s_blocked s = s_blocked g).
Proof. exact apply_client_spec. Qed.
Print Assumptions C04_settings_switches.

(** Non-vacuity: a concrete reachable registry with overlapping /8 /16 /24
    prefixes, a ClientID, an exact address, a lease MAC; rejected and accepted
    operations on it. *)
Example C04_premises_satisfiable :
  Inv ex_ix /\
  length (by_uid ex_ix) = 3%nat /\
  acf_find ex_ix ex_dhcp [99;108;105] (v4 10 9 9 9) = Some 2 /\
  acf_find ex_ix ex_dhcp [] (v4 10 1 2 3) = Some 2 /\
  acf_find ex_ix ex_dhcp [] (v4 10 1 2 77) = Some 2 /\
  acf_find ex_ix ex_dhcp [] (v4 10 1 200 1) = Some 3 /\
  acf_find ex_ix ex_dhcp [] (v4 10 200 0 1) = Some 1 /\
  acf_find ex_ix ex_dhcp [] (v4 192 168 1 5) = Some 3 /\
  acf_find ex_ix ex_dhcp [] (v4 8 8 8 8) = None /\
  acf_find ex_ix ex_dhcp [] (fe80_1 [101;116;104;48]) = Some 3 /\
  acf_find ex_ix ex_dhcp [] (fe80_1 [101;116;104;49]) = Some 1 /\
  acf_find ex_ix ex_dhcp [] (fe80_1 []) = Some 1 /\
  snd (step ex_cfg ex_ix (OAdd (ex_client 5 [101] [] [v4 10 9 9 9] [] [] true true))) = EIP /\
  snd (step ex_cfg ex_ix (OUpdate [97] (ex_client 6 [98] [] [] [([10;0;0;0], 8)] [] true true))) = EName /\
  snd (step ex_cfg ex_ix (OUpdate [97] (ex_client 7 [97] [] [] [([10;0;0;0], 8); ([10;2;0;0], 8)] [] false false))) = EOk.
Proof. exact example_registry. Qed.

(** * CIDR identifiers spelled with host bits (192.168.1.1/24 next to 192.168.1.0/24)

    No theorem of this file assumes canonical prefixes: a prefix is the exact
    pair (address as spelled, bits), which is what netip.ParsePrefix /
    Persistent.SetIDs hand to the index, what its clash test compares and what
    [subnet_compare] orders; only the containment test masks. *)

(** The containment test does not see the host bits of the prefix. *)
Theorem C04_contains_masks : forall p q ip,
  (same_network p q -> contains p ip = contains q ip) /\ contains (masked p) ip = contains p ip.
Proof. exact (fun p q ip => conj (contains_same_network p q ip) (contains_masked p ip)). Qed.
Print Assumptions C04_contains_masks.

(** Under the invariant (any host bits): a stored prefix containing the
    address always answers when nobody owns the address itself; the answer is
    the owner of the containing prefix FIRST in (bits descending, unmasked
    address ascending) order, which is at least as long as every stored
    containing prefix ("the longest containing prefix" alone is not unique
    when several spellings of one network are stored). *)
Theorem C04_stored_cidr_resolves : forall ix a p u,
  Inv ix -> owner_of ix c_subnets p u -> contains p (fst a) = true -> zget a (ip_to ix) = None ->
  exists p' u', find_by_ip ix a = Some u' /\ owner_of ix c_subnets p' u' /\
    contains p' (fst a) = true /\ snd p <= snd p' /\
    (forall q v, owner_of ix c_subnets q v -> contains q (fst a) = true ->
       snd q <= snd p' /\ (q = p' \/ subnet_compare p' q = Lt)).
Proof. exact cidr_resolves. Qed.
Print Assumptions C04_stored_cidr_resolves.

(** An operation on the client called [n] (or an add) leaves every other
    client's record, hence every identifier it owns, in place. *)
Theorem C04_other_clients_untouched : forall cfg ix o ix' e u c,
  Inv ix -> step cfg ix o = (ix', e) -> deref ix u = Some c ->
  match o with
  | OAdd _ => True
  | OUpdate n _ | ORemove n => find_by_name ix n <> Some u
  end ->
  deref ix' u = Some c.
Proof. exact step_keeps_other_clients. Qed.
Print Assumptions C04_other_clients_untouched.

(** Removing a client does not change the answer for an address that resolved
    to another client. *)
Theorem C04_remove_keeps_resolution : forall ix c u0 a u,
  Inv ix -> deref ix u0 = Some c -> find_by_ip ix a = Some u -> u <> u0 ->
  find_by_ip (index_remove c ix) a = Some u.
Proof. exact remove_keeps_others. Qed.
Print Assumptions C04_remove_keeps_resolution.

(** After ANY history and then a remove / update of the client called [n], a
    prefix [p] with ANY host bits listed by another client is still owned by
    that client and every address inside it which nobody owns exactly still
    resolves, to the owner of the first containing prefix in subnet order. *)
Theorem C04_noncanonical_prefixes : forall cfg ops o n p u a,
  let ix := run cfg ops empty_index in
  let ix' := fst (step cfg ix o) in
  op_on_client o n -> owner_of ix c_subnets p u -> find_by_name ix n <> Some u ->
  contains p (fst a) = true -> zget a (ip_to ix') = None ->
  owner_of ix' c_subnets p u /\
  exists p' u', find_by_ip ix' a = Some u' /\ owner_of ix' c_subnets p' u' /\
    contains p' (fst a) = true /\ snd p <= snd p' /\
    (forall q v, owner_of ix' c_subnets q v -> contains q (fst a) = true ->
       snd q <= snd p' /\ (q = p' \/ subnet_compare p' q = Lt)).
Proof. exact noncanonical_prefixes. Qed.
Print Assumptions C04_noncanonical_prefixes.

(** The premises are satisfiable, by the very scenario: a owns 192.168.1.1/24,
    b owns 192.168.1.0/24 (accepted; the same spelling again is refused);
    192.168.1.77 resolves to b, after b is removed / updated away to a, after
    a is removed / renamed to b. *)
Example C04_noncanonical_example :
  Inv nc_ix /\ same_network p_1_1 p_1_0 /\ p_1_1 <> p_1_0 /\ masked p_1_1 = p_1_0 /\
  owner_of nc_ix c_subnets p_1_1 1 /\ owner_of nc_ix c_subnets p_1_0 2 /\
  map fst (subnet_to nc_ix) = [p_1_0; p_1_1] /\
  snd (step ex_cfg nc_ix (OAdd (nc_client 3 [99] [p_1_1]))) = ESubnet /\
  snd (step ex_cfg nc_ix (OAdd (nc_client 3 [99] [p_1_200]))) = EOk /\
  find_by_ip nc_ix a77 = Some 2 /\
  find_by_ip (fst (step ex_cfg nc_ix (ORemove [98]))) a77 = Some 1 /\
  find_by_ip (fst (step ex_cfg nc_ix (ORemove [97]))) a77 = Some 2 /\
  find_by_ip (fst (step ex_cfg nc_ix (OUpdate [98] (nc_client 9 [98] [([10;0;0;0], 8)])))) a77 = Some 1 /\
  find_by_ip (fst (step ex_cfg nc_ix (OUpdate [98] (nc_client 9 [98] [p_1_200])))) a77 = Some 1 /\
  find_by_ip (fst (step ex_cfg nc_ix (OUpdate [97] (nc_client 9 [100] [p_1_1])))) a77 = Some 2 /\
  zget a77 (ip_to (fst (step ex_cfg nc_ix (ORemove [98])))) = None.
Proof. exact example_noncanonical. Qed.

(** The other reading of "identifier".  If a CIDR identifier is read as the
    NETWORK it denotes, "no two clients share an identifier" would say that two
    stored clients never hold prefixes of one network.  The registry as it is
    (exact-prefix clash test) does not guarantee this; witness: the two adds
    above.  For canonical prefixes the readings coincide. *)
Theorem C04_networks_disjoint_refuted : ~ networks_disjoint_statement.
Proof. exact networks_disjoint_refuted. Qed.
Print Assumptions C04_networks_disjoint_refuted.

Theorem C04_canonical_networks_disjoint : forall ix p1 p2 u1 u2,
  Inv ix -> canonical p1 -> canonical p2 ->
  owner_of ix c_subnets p1 u1 -> owner_of ix c_subnets p2 u2 -> same_network p1 p2 -> u1 = u2.
Proof. exact canonical_networks_disjoint. Qed.
Print Assumptions C04_canonical_networks_disjoint.

Example C04_canonical_example :
  canonical p_1_0 /\ ~ canonical p_1_1 /\
  owner_of (run ex_cfg [OAdd (nc_client 1 [97] [p_1_0])] empty_index) c_subnets p_1_0 1.
Proof. exact example_canonical. Qed.

(** * Acceptance of add / update: [Persistent.validate] with tags and upstreams *)

(** An accepted record has a name, an identifier, a uid, only allowed tags,
    and every upstream line is well-formed: empty, a comment, one address
    the upstream package accepts, or [[/d1/d2/]u1 u2 ..] with valid domain
    names up to the FIRST "/]", a non-empty upstream part and either the [#]
    exclusion or only acceptable addresses. *)
Theorem C04_validate_accepts : forall cfg c, validate cfg c = EOk -> valid_client cfg c.
Proof. exact validate_accepts. Qed.
Print Assumptions C04_validate_accepts.

Theorem C04_upstream_line : forall addr_ok l, parse_line addr_ok l = LOk -> line_ok addr_ok l.
Proof. exact parse_line_ok. Qed.
Print Assumptions C04_upstream_line.

(** ... and exactly those: the verdict "accepted" is characterised in both
    directions (a record is refused, by error or panic, iff it is not valid). *)
Theorem C04_upstream_line_iff : forall addr_ok l, parse_line addr_ok l = LOk <-> line_ok addr_ok l.
Proof. exact parse_line_iff. Qed.
Print Assumptions C04_upstream_line_iff.

Theorem C04_validate_iff : forall cfg c, validate cfg c = EOk <-> valid_client cfg c.
Proof. exact validate_iff. Qed.
Print Assumptions C04_validate_iff.

Theorem C04_validate_rejects_tag : forall cfg c t,
  In t (c_tags c) -> ~ In t (cfg_tags cfg) -> validate cfg c <> EOk.
Proof. exact validate_rejects_tag. Qed.
Print Assumptions C04_validate_rejects_tag.

Theorem C04_validate_rejects_upstream : forall cfg c l,
  In l (c_upstreams c) -> ~ line_ok (cfg_addr_ok cfg) l -> validate cfg c <> EOk.
Proof. exact validate_rejects_upstream. Qed.
Print Assumptions C04_validate_rejects_upstream.

(** In every reachable state every stored record is a validated one (tags
    allowed and sorted, upstream lines well-formed). *)
Theorem C04_stored_records_valid : forall cfg ops u c,
  deref (run cfg ops empty_index) u = Some c ->
  c_name c <> [] /\ ids_len c <> 0%nat /\
  Forall (line_ok (cfg_addr_ok cfg)) (c_upstreams c) /\
  Forall (fun t => In t (cfg_tags cfg)) (c_tags c) /\ Sorted names_le (c_tags c).
Proof. exact stored_records_valid. Qed.
Print Assumptions C04_stored_records_valid.

(** * From the registry to the request's effective blocked-service rules *)

(** [ApplyAdditionalFiltering] on settings that carry no BlockedServices value
    (what [dnsFilter.Settings()] returns): the chosen client's record is
    applied as in [C04_settings], and the service rules are the client's OWN
    list under the client's OWN pause schedule when it has its own blocked
    services, else the global list under the global schedule. *)
Theorem C04_effective_services : forall zone_off known ix dhcp gb t id a g,
  Inv ix -> s_blocked g = None ->
  exists s, apply_additional_filtering zone_off known ix dhcp gb t id a g = Some s /\
    match acf_find ix dhcp id a with
    | None => s = set_services (effective_services zone_off known gb t) g
    | Some u =>
        exists c, deref ix u = Some c /\ c_uid c = u /\
          s = set_services (expected_services zone_off known gb t (Some c))
                (apply_client c (set_services (effective_services zone_off known gb t) g))
    end.
Proof. exact additional_filtering_spec. Qed.
Print Assumptions C04_effective_services.

(** A client with its own blocked services never falls back to the global
    list: while its own schedule pauses, nothing is blocked for it. *)
Theorem C04_own_blocked_never_global : forall zone_off known ix dhcp gb t id a g u c b,
  Inv ix -> s_blocked g = None ->
  acf_find ix dhcp id a = Some u -> deref ix u = Some c ->
  c_own_blocked c = true -> c_blocked c = Some b ->
  exists s, apply_additional_filtering zone_off known ix dhcp gb t id a g = Some s /\
    s_services s = (if paused zone_off b t then [] else services_of known (b_ids b)) /\
    s_blocked s = Some b.
Proof. exact own_blocked_never_global. Qed.
Print Assumptions C04_own_blocked_never_global.

Theorem C04_global_blocked_otherwise : forall zone_off known ix dhcp gb t id a g,
  Inv ix -> s_blocked g = None ->
  (forall u c, acf_find ix dhcp id a = Some u -> deref ix u = Some c -> c_own_blocked c = false) ->
  exists s, apply_additional_filtering zone_off known ix dhcp gb t id a g = Some s /\
    s_services s = (if paused zone_off gb t then [] else services_of known (b_ids gb)).
Proof. exact global_blocked_otherwise. Qed.
Print Assumptions C04_global_blocked_otherwise.

Example C04_additional_premises_satisfiable :
  let ix := run ex_cfg [OAdd ex_c] empty_index in
  let z := fun (_ : N) (_ : Z) => 0%Z in
  let known := [[121;116]; [102;98]] in
  Inv ix /\
  option_map s_services (apply_additional_filtering z known ix (fun _ => None) ex_glob 43200000000000%Z [99] ([], []) ex_g)
    = Some [] /\
  option_map s_services (apply_additional_filtering z known ix (fun _ => None) ex_glob 129600000000000%Z [99] ([], []) ex_g)
    = Some [[121;116]] /\
  option_map s_services (apply_additional_filtering z known ix (fun _ => None) ex_glob 43200000000000%Z [] ([], []) ex_g)
    = Some [[102;98]].
Proof. exact example_additional. Qed.

(** * The ClientID hand-over HandleBefore -> processInitial *)

(** For ANY interleaving of requests and any cache configuration: a request
    whose HandleBefore extracted no ClientID reads none in processInitial,
    whatever other requests cached (the key is the request's own unique
    RequestID). *)
Theorem C04_handover_no_inherit : forall cf evs rid,
  (forall cid, In (EvBefore rid cid) evs -> cid = []) ->
  seen_after cf evs rid = [].
Proof. exact no_inherit. Qed.
Print Assumptions C04_handover_no_inherit.

(** A ClientID of any length that the cache admits (the server's
    configuration admits every length) is read back unchanged, whatever
    happened before, as long as fewer than MaxCount events of other requests
    lie between the two stages of this request. *)
Theorem C04_handover_survives : forall cf evs1 evs2 rid cid,
  cid <> [] -> fits cf cid ->
  (forall e, In e evs2 -> ~ touches rid e) ->
  (length evs2 < cc_max_count cf)%nat ->
  seen_after cf (evs1 ++ EvBefore rid cid :: evs2) rid = cid.
Proof. exact survives. Qed.
Print Assumptions C04_handover_survives.

(** Both together, for a RequestID that is the request's own: processInitial
    reads exactly what HandleBefore of the same request extracted. *)
Theorem C04_handover_exact : forall cf evs1 evs2 rid cid,
  fits cf cid ->
  (forall e, In e evs1 -> ~ touches rid e) ->
  (forall e, In e evs2 -> ~ touches rid e) ->
  (length evs2 < cc_max_count cf)%nat ->
  seen_after cf (evs1 ++ EvBefore rid cid :: evs2) rid = cid.
Proof. exact handover_exact. Qed.
Print Assumptions C04_handover_exact.

Theorem C04_handover_server_conf_fits : forall v, fits server_cache_conf v.
Proof. exact server_conf_fits. Qed.
Print Assumptions C04_handover_server_conf_fits.

(** The MaxCount bound is real (LRU eviction), shown on MaxCount = 2. *)
Example C04_handover_eviction_witness :
  let cf := {| cc_max_count := 2; cc_max_elem := None |} in
  seen_after cf [EvBefore 1 [97]; EvBefore 2 [98]; EvBefore 3 [99]] 1 = [] /\
  seen_after cf [EvBefore 1 [97]; EvBefore 2 [98]] 1 = [97].
Proof. exact eviction_witness. Qed.

(** * Round 3: the configuration load / save path (home/clients.go:
    clientObject.toPersistent, clientsContainer.Init, forConfig;
    Model/ClientConfig.v, Proofs/ClientConfig.v) *)
From AGH Require Import Model.ClientConfig Proofs.ClientConfig.

(** Every field of a client loaded from the configuration is the one written
    in the file object; an absent optional key gives the zero value / the
    empty own section and never changes another field: the opt-out of the
    global blocked services is the negation of [use_global_blocked_services]
    whatever the [blocked_services] key looks like. *)
Theorem C04_config_flags_as_written : forall known g o c x,
  to_persistent known g o = COk c x -> as_written g o c x.
Proof. exact flags_as_written. Qed.
Print Assumptions C04_config_flags_as_written.

Theorem C04_config_opt_out_kept : forall known g o c x,
  to_persistent known g o = COk c x ->
  o_use_global_blocked o = false -> c_own_blocked c = true /\ exists b, c_blocked c = Some b.
Proof. exact opt_out_kept. Qed.
Print Assumptions C04_config_opt_out_kept.

(** The conversion refuses exactly a bad identifier or an unknown service. *)
Theorem C04_config_conversion_total : forall known g o,
  (exists c x, to_persistent known g o = COk c x) <->
  (existsb is_bad (o_ids o) = false /\
   forallb (fun i => existsb (eqb_bytes i) known)
     (b_ids (stored_blocked (o_blocked o))) = true).
Proof. exact to_persistent_total. Qed.
Print Assumptions C04_config_conversion_total.

(** forConfig writes every field of the record (each flag from its own
    field), and for a loaded client always the blocked-services section. *)
Theorem C04_config_for_config_total : forall c x,
  let o := for_config c x in
  o_name o = c_name c /\ o_uid o = c_uid c /\ o_tags o = c_tags c /\ o_upstreams o = c_upstreams c /\
  o_ss o = x_ss x /\ o_blocked o = option_map (fun b => written_blocked b (x_nil_sched x)) (c_blocked c) /\
  o_cache_size o = x_cache_size x /\ o_cache_enabled o = x_cache_enabled x /\
  o_use_global_settings o = negb (c_own_settings c) /\ o_filtering o = c_filtering c /\
  o_parental o = c_parental c /\ o_safebrowsing o = c_safebrowsing c /\
  o_use_global_blocked o = negb (c_own_blocked c) /\
  o_ignore_qlog o = c_ignore_qlog c /\ o_ignore_stats o = c_ignore_stats c /\
  o_ids o = ids_of c.
Proof. exact for_config_fields. Qed.
Print Assumptions C04_config_for_config_total.

Theorem C04_config_section_always_written : forall known g o c x,
  to_persistent known g o = COk c x ->
  exists fb, o_blocked (for_config c x) = Some fb /\ fb_ids fb = b_ids (stored_blocked (o_blocked o)).
Proof. exact for_config_section. Qed.
Print Assumptions C04_config_section_always_written.

(** Round trip, object level, every field: what forConfig writes for a
    loaded client (with a uid) converts back to exactly that client, for every
    generated uid (8-byte MACs included since /repo 5c9e5b4); and list level: converting the
    written section reproduces the list of clients. *)
Theorem C04_config_roundtrip_object : forall known g g' o c x,
  to_persistent known g o = COk c x -> c_uid c <> 0 ->
  to_persistent known g' (for_config c x) = COk c x.
Proof. exact object_roundtrip. Qed.
Print Assumptions C04_config_roundtrip_object.

Theorem C04_config_roundtrip_partial : forall known g pcs i,
  loadable_back known pcs ->
  conv_all known i (map (fun o => (g, o)) (written pcs)) = inr pcs.
Proof. exact (fun known g pcs i => conv_all_written known g pcs i). Qed.
Print Assumptions C04_config_roundtrip_partial.

(** Registries with the same records give every request the same effective
    settings (so the registry-level round trip carries over to requests). *)
Theorem C04_config_same_records_same_settings : forall ix1 ix2 dhcp id a g,
  Inv ix1 -> Inv ix2 -> (forall u, deref ix1 u = deref ix2 u) ->
  apply_client_filtering ix1 dhcp id a g = apply_client_filtering ix2 dhcp id a g.
Proof. exact same_records_same_settings. Qed.
Print Assumptions C04_config_same_records_same_settings.

(** An 8-byte MAC survives save and restart (before /repo 5c9e5b4 this very
    object refuted the round trip: the colon text was read as an IPv6 address). *)
Example C04_config_roundtrip_mac8 :
  exists r r',
    load ex_conf_cfg [] [(0, ex_obj)] = LOk r /\ reload ex_conf_cfg [] 0 r = LOk r' /\
    (exists c, deref (fst r) 7 = Some c /\ c_macs c = [ex_mac8] /\ c_ips c = []) /\
    (exists c', deref (fst r') 7 = Some c' /\ c_macs c' = [ex_mac8] /\ c_ips c' = []) /\
    save r' = save r.
Proof. exact roundtrip_mac8. Qed.

(** OBSERVATION (no clause of C04 says "never crashes"): a [blocked_services]
    section without a [schedule] key is stored with a nil schedule, and a
    request PANICS exactly when the chosen client applies its own blocked
    services and has such a section. *)
Theorem C04_config_nil_schedule_panics : forall r dhcp id a,
  query_panics r dhcp id a = true <->
  exists u c, acf_find (fst r) dhcp id a = Some u /\ deref (fst r) u = Some c /\
              c_own_blocked c = true /\ x_nil_sched (extra_of r u) = true.
Proof. exact query_panics_spec. Qed.
Print Assumptions C04_config_nil_schedule_panics.

Theorem C04_config_nil_schedule_as_written : forall known g o c x,
  to_persistent known g o = COk c x ->
  (x_nil_sched x = true <-> exists fb, o_blocked o = Some fb /\ fb_sched fb = None).
Proof. exact nil_sched_as_written. Qed.
Print Assumptions C04_config_nil_schedule_as_written.

Example C04_config_nil_schedule_witness :
  exists r r',
    load ex_conf_cfg [] [(0, ex_obj_nil)] = LOk r /\ reload ex_conf_cfg [] 0 r = LOk r' /\
    query_panics r (fun _ => None) [] ([10;1;2;3], []) = true /\
    query_panics r' (fun _ => None) [] ([10;1;2;3], []) = true /\
    query_panics r (fun _ => None) [] ([10;1;2;4], []) = false.
Proof. exact example_nil_sched. Qed.

(** Premises satisfiable: a client with an absent section and the opt-out,
    identifiers of every kind, loaded, written, read back, written again. *)
Example C04_config_premises_satisfiable :
  exists c x r r',
    to_persistent [] 5 ex_obj6 = COk c x /\ c_uid c = 5 /\ c_uid c <> 0 /\
    c_own_blocked c = true /\ c_blocked c = Some default_blocked /\
    c_ignore_qlog c = false /\ c_ignore_stats c = true /\
    to_persistent [] 0 (for_config c x) = COk c x /\
    load ex_conf_cfg [] [(5, ex_obj6)] = LOk r /\ reload ex_conf_cfg [] 0 r = LOk r' /\
    save r' = save r /\ save r = [for_config c x].
Proof. exact example_roundtrip. Qed.

(** * Round 3: the registry-level configuration round trip
    (Proofs/ClientConfigLoad.v) *)
From AGH Require Import Proofs.ClientConfigLoad.

(** For EVERY file the loader accepts: what forConfig writes is accepted at
    the next start-up (for every value NewUID might return), the registry read
    back has the same record and the same extra fields under every uid (all
    per-client fields), it writes the same objects again, both registries
    satisfy the index invariant, and every request (ClientID, address, DHCP
    table, global settings) gets the same effective settings from both. *)
Theorem C04_config_roundtrip : forall cfg known objs r g,
  load cfg known objs = LOk r ->
  exists r', reload cfg known g r = LOk r' /\ same_records r r' /\ save r' = save r /\
             Inv (fst r) /\ Inv (fst r') /\
             (forall dhcp id a s, apply_client_filtering (fst r) dhcp id a s =
                                  apply_client_filtering (fst r') dhcp id a s).
Proof. exact config_roundtrip. Qed.
Print Assumptions C04_config_roundtrip.

(** Saving, restarting and saving again, twice over, writes the same section. *)
Theorem C04_config_save_stable : forall cfg known objs r g g',
  load cfg known objs = LOk r ->
  exists r' r'', reload cfg known g r = LOk r' /\ reload cfg known g' r' = LOk r'' /\
                 save r'' = save r /\ save r' = save r.
Proof. exact config_save_stable. Qed.
Print Assumptions C04_config_save_stable.

(** Loading what forConfig wrote never fails and stores exactly the saved
    records, for every registry with the loader's invariant ([Good]: index
    invariant, one entry per uid, every record validated, normalized and the
    image of a file object). *)
Theorem C04_config_load_saved_accepts : forall cfg known g r,
  Good cfg known r ->
  exists r', reload cfg known g r = LOk r' /\
    forall u c, deref (fst r') u = Some c <-> In c (clients_by_name (fst r)) /\ c_uid c = u.
Proof. exact load_saved_accepts. Qed.
Print Assumptions C04_config_load_saved_accepts.

Theorem C04_config_loaded_is_good : forall cfg known objs r,
  load cfg known objs = LOk r -> Good cfg known r.
Proof. exact load_good. Qed.
Print Assumptions C04_config_loaded_is_good.

(** The general acceptance lemma behind it: a list of valid, normalized
    records with distinct fresh uids that share no name or identifier with each
    other nor with the registry is loaded without error, and exactly these
    records are added. *)
Theorem C04_config_clash_free_accepted : forall cfg pcs i r0,
  Inv (fst r0) ->
  (forall p, In p pcs -> validate cfg (fst p) = EOk /\ normalize (fst p) = fst p) ->
  NoDup (map (fun p => c_uid (fst p)) pcs) ->
  (forall p, In p pcs -> deref (fst r0) (c_uid (fst p)) = None) ->
  (forall p q, In p pcs -> In q pcs -> c_uid (fst p) <> c_uid (fst q) -> ~ shares (fst p) (fst q)) ->
  (forall p u c', In p pcs -> deref (fst r0) u = Some c' -> ~ shares (fst p) c') ->
  exists r', add_all cfg i pcs r0 = LOk r' /\
    (forall u c, deref (fst r') u = Some c <->
                 (exists x, In (c, x) pcs /\ c_uid c = u) \/ deref (fst r0) u = Some c) /\
    (forall p, In p pcs -> extra_of r' (c_uid (fst p)) = snd p) /\
    (forall u, (forall p, In p pcs -> c_uid (fst p) <> u) -> extra_of r' u = extra_of r0 u).
Proof. exact add_all_accepts. Qed.
Print Assumptions C04_config_clash_free_accepted.

(** Premises satisfiable: a file of two clients (overlapping prefixes, a
    ClientID, an 8-byte MAC, a section without ids) that the loader accepts. *)
Example C04_config_roundtrip_premises_satisfiable :
  exists r, load ex_conf_cfg [] [(5, ex_obj6); (0, ex_obj_b)] = LOk r /\
            length (clients_by_name (fst r)) = 2%nat /\ Good ex_conf_cfg [] r.
Proof. exact example_two_loaded. Qed.

(** * Round 4: aghalg.SortedMap as implemented, and the runtime_sources switches *)
From AGH Require Import Model.SortedMap Model.SubnetMap Proofs.SortedMap Proofs.SubnetMap Proofs.ClientSources.

(** slices.BinarySearchFunc as written (midpoint loop with fuel) never runs out
    of fuel and never indexes outside the slice, whatever the slice holds. *)
Theorem C04_sortedmap_search_total : forall (K : Type) (cmp : K -> K -> comparison) keys t,
  bsearch cmp keys t <> None.
Proof. exact (@bsearch_total). Qed.
Print Assumptions C04_sortedmap_search_total.

(** The implementation (key slice + Go map; Set = binary search, overwrite or
    insert; Del = binary search, remove one position; Clear) refines a finite
    map with ordered iteration, for EVERY sequence of calls from the empty map,
    repeated keys and keys equal to the current last one included, for every
    comparator that is a strict total order whose zero is equality: no call
    panics, the invariant (key slice strictly sorted; a key is in the slice
    exactly when the map holds it) holds, and Range shows the sorted
    association list the abstract operations build. *)
Theorem C04_sortedmap_refines : forall (K V : Type) (cmp : K -> K -> comparison) (keq : K -> K -> bool) (zero : V),
  (forall a b, keq a b = true <-> a = b) ->
  (forall a b, cmp a b = Eq <-> a = b) ->
  (forall a b, cmp b a = CompOpp (cmp a b)) ->
  (forall a b c, cmp a b = Lt -> cmp b c = Lt -> cmp a c = Lt) ->
  forall ops : list (smop K V),
  exists m, smap_run cmp keq ops smap_new = SOk m /\ smap_inv cmp keq m /\
            smap_all keq zero m = fm_run cmp keq ops [].
Proof. exact (@sortedmap_refines). Qed.
Print Assumptions C04_sortedmap_refines.

(** ... hence the key slice is strictly sorted and free of duplicates after
    every sequence of calls. *)
Theorem C04_sortedmap_keys_strictly_sorted :
  forall (K V : Type) (cmp : K -> K -> comparison) (keq : K -> K -> bool) (zero : V),
  (forall a b, keq a b = true <-> a = b) ->
  (forall a b, cmp a b = Eq <-> a = b) ->
  (forall a b, cmp b a = CompOpp (cmp a b)) ->
  (forall a b c, cmp a b = Lt -> cmp b c = Lt -> cmp a c = Lt) ->
  forall (ops : list (smop K V)) m,
  smap_run cmp keq ops smap_new = SOk m -> ksorted cmp (sm_keys m) /\ NoDup (sm_keys m).
Proof. exact (@keys_strictly_sorted). Qed.
Print Assumptions C04_sortedmap_keys_strictly_sorted.

(** Range visits every present key exactly once, in order, with its value. *)
Theorem C04_sortedmap_range_each_once :
  forall (K V : Type) (cmp : K -> K -> comparison) (keq : K -> K -> bool) (zero : V),
  (forall a b, cmp a b = Eq <-> a = b) ->
  forall m : smap K V, smap_inv cmp keq m ->
  map fst (smap_all keq zero m) = sm_keys m /\ ksorted cmp (map fst (smap_all keq zero m)) /\
  NoDup (map fst (smap_all keq zero m)) /\
  forall k v, In (k, v) (smap_all keq zero m) <-> smap_get keq k m = Some v.
Proof. exact (@range_each_once). Qed.
Print Assumptions C04_sortedmap_range_each_once.

(** A Range whose callback stops at the first pair it likes finds the first
    such pair in order (index.findByIP, index.clashesSubnet). *)
Theorem C04_sortedmap_range_stops_at_first :
  forall (K V : Type) (keq : K -> K -> bool) (zero : V) (p : K -> V -> bool) (m : smap K V),
  smap_range keq zero (fun k v (a : option (K * V)) => if p k v then (Some (k, v), false) else (a, true)) m None =
  List.find (fun kv => p (fst kv) (snd kv)) (smap_all keq zero m).
Proof. exact (@range_find). Qed.
Print Assumptions C04_sortedmap_range_stops_at_first.

(** Map laws of the implementation itself: Del k; Get k = none, and the others. *)
Theorem C04_sortedmap_get_after_del :
  forall (K V : Type) (cmp : K -> K -> comparison) (keq : K -> K -> bool),
  (forall a b, keq a b = true <-> a = b) ->
  forall k (m m' : smap K V), smap_del cmp keq k m = SOk m' ->
  smap_get keq k m' = None /\ forall k', k <> k' -> smap_get keq k' m' = smap_get keq k' m.
Proof.
  exact (fun K V cmp keq Hk k m m' E =>
           conj (get_del_eq cmp keq k m m' E) (fun k' Hne => get_del_ne cmp keq Hk k k' m m' Hne E)).
Qed.
Print Assumptions C04_sortedmap_get_after_del.

Theorem C04_sortedmap_get_after_set :
  forall (K V : Type) (cmp : K -> K -> comparison) (keq : K -> K -> bool),
  (forall a b, keq a b = true <-> a = b) ->
  forall k v (m m' : smap K V), smap_set cmp keq k v m = SOk m' ->
  smap_get keq k m' = Some v /\ forall k', k <> k' -> smap_get keq k' m' = smap_get keq k' m.
Proof.
  exact (fun K V cmp keq Hk k v m m' E =>
           conj (get_set_eq cmp keq Hk k v m m' E) (fun k' Hne => get_set_ne cmp keq Hk k k' v m m' Hne E)).
Qed.
Print Assumptions C04_sortedmap_get_after_set.

(** index.subnetToUID: replaying on the implementation's structure, with
    subnetCompare, the Set / Del calls that ANY registry history makes (clients
    that list a subnet twice included) never panics, keeps the key slice
    strictly sorted, and Range shows exactly the registry model's subnet list;
    index.add / index.remove / index.clashesSubnet / index.findByIP over the
    structure compute what the registry model computes. *)
Theorem C04_subnet_map_refines : forall cfg ops,
  exists m, pm_run (history_calls cfg ops empty_index) pm_new = SOk m /\
            sub_rel m (run cfg ops empty_index).
Proof. exact subnet_map_refines. Qed.
Print Assumptions C04_subnet_map_refines.

Theorem C04_subnet_map_index_ops : forall c ix m, sub_rel m ix ->
  (exists m', pm_add_keys (c_subnets c) (c_uid c) m = SOk m' /\ sub_rel m' (index_add c ix)) /\
  (exists m', pm_del_keys (c_subnets c) m = SOk m' /\ sub_rel m' (index_remove c ix)) /\
  pm_clash (c_subnets c) (c_uid c) m = clash_key sm_get (c_subnets c) (c_uid c) (subnet_to ix) /\
  forall ip, find_by_ip ix ip =
             match zget ip (ip_to ix) with Some u => Some u | None => pm_find_ip (fst ip) m end.
Proof.
  exact (fun c ix m H =>
           conj (index_add_refines c ix m H)
             (conj (index_remove_refines c ix m H)
                (conj (clashes_subnet_refines c ix m H) (fun ip => find_by_ip_refines ix m ip H)))).
Qed.
Print Assumptions C04_subnet_map_index_ops.

(** No ghost subnet: after any history, every pair Range of the
    implementation's map shows is a subnet of a STORED client that lists it,
    and no subnet is shown twice. *)
Theorem C04_no_ghost_subnet : forall cfg ops m,
  pm_run (history_calls cfg ops empty_index) pm_new = SOk m ->
  NoDup (map fst (pm_all m)) /\
  forall p u, In (p, u) (pm_all m) ->
    exists c, deref (run cfg ops empty_index) u = Some c /\ In p (c_subnets c) /\ c_uid c = u.
Proof. exact no_ghost_subnet. Qed.
Print Assumptions C04_no_ghost_subnet.

Example C04_subnet_map_premises_satisfiable :
  history_calls dup_cfg dup_ops empty_index =
    [MSet p10_1 1; MSet p10_1 1; MDel p10_1; MDel p10_1; MSet p10 2; MSet p10 2;
     MSet p10_1 3; MSet p10_1 3; MDel p10; MDel p10; MSet ([10; 2; 0; 0], 16) 2] /\
  (exists m, pm_run (history_calls dup_cfg dup_ops empty_index) pm_new = SOk m /\
             sm_keys m = [p10_1; ([10; 2; 0; 0], 16)] /\
             pm_all m = [(p10_1, 3); (([10; 2; 0; 0], 16), 2)] /\
             pm_find_ip [10; 0; 9; 9] m = None /\ pm_find_ip [10; 1; 9; 9] m = Some 3).
Proof. exact dup_history. Qed.

(** clientsContainer.Init: the clients.runtime_sources switches do not take
    part in matching persistent clients.  For any two settings of the five
    switches (and of the hosts container) and the same DHCP server, Init loads
    the same registry, every request is attributed to the same client and gets
    the same effective settings. *)
Theorem C04_sources_do_not_affect_persistent_lookup :
  forall cfg known s s' server hh hh' objs r id a g,
  fst (init cfg known s server hh objs) = fst (init cfg known s' server hh' objs) /\
  container_lookup (snd (init cfg known s server hh objs)) r id a =
    container_lookup (snd (init cfg known s' server hh' objs)) r id a /\
  container_acf (snd (init cfg known s server hh objs)) r id a g =
    container_acf (snd (init cfg known s' server hh' objs)) r id a g.
Proof.
  exact (fun cfg known s s' server hh hh' objs r id a g =>
           conj (sources_do_not_affect_load cfg known s s' server hh hh' objs)
             (conj (sources_do_not_affect_persistent_lookup s s' server hh hh' r id a)
                   (sources_do_not_affect_settings s s' server hh hh' r id a g))).
Qed.
Print Assumptions C04_sources_do_not_affect_persistent_lookup.

(** Whatever the switches, an initialised container attributes a request by
    the full precedence, the DHCP SERVER's leases at level 4. *)
Theorem C04_init_resolves_by_precedence : forall cfg known s server hh objs r sc id a,
  init cfg known s server hh objs = (LOk r, sc) ->
  resolves (fst r) server id a (container_lookup sc r id a).
Proof. exact init_resolves. Qed.
Print Assumptions C04_init_resolves_by_precedence.

Theorem C04_mac_client_found_any_sources : forall s server hh r id a m u,
  Inv (fst r) ->
  no_cid (fst r) id -> no_ip (fst r) a -> no_cidr (fst r) a ->
  server a = Some m -> owner_of (fst r) c_macs m u ->
  container_lookup (init_conf s server hh) r id a = Some u.
Proof. exact mac_client_found_any_sources. Qed.
Print Assumptions C04_mac_client_found_any_sources.

Example C04_mac_client_sources_off_premises_satisfiable :
  exists r sc,
    init ex_conf_cfg [] all_off ex_server false [(0, ex_kid)] = (LOk r, sc) /\
    sc_runtime_dhcp sc = false /\
    container_lookup sc r [] ([192;168;1;50], []) = Some 3 /\
    (exists st, container_acf sc r [] ([192;168;1;50], []) ex_global = Some st /\
                s_client_name st = [107;105;100] /\ s_parental st = true) /\
    container_lookup sc r [] ([192;168;1;51], []) = None /\
    no_cid (fst r) [] /\ no_ip (fst r) ([192;168;1;50], []) /\ no_cidr (fst r) ([192;168;1;50], []).
Proof. exact example_mac_client_sources_off. Qed.

From AGH Require Import Model.ClientHTTP Proofs.ClientHTTP.

(** * Round 5: the clients HTTP API as the entry point of registry histories
    (Model/ClientHTTP.v, Proofs/ClientHTTP.v).

    jsonToClient builds the record toPersistent builds for the file object with
    the same fields, and the client's own safe-search engine under the same
    guard: whatever holds for clients loaded from the configuration holds for
    clients set over HTTP. *)
Theorem C04_http_body_is_object : forall known g cj c x,
  json_to_client known g cj = JOk c x ->
  to_persistent known g (obj_of_json g cj) = COk c (hx_extra x) /\ x = with_engine (hx_extra x).
Proof. exact json_as_object. Qed.
Print Assumptions C04_http_body_is_object.

Theorem C04_http_conversion_total : forall known g cj,
  (exists c x, json_to_client known g cj = JOk c x) <->
  (forallb (fun i => existsb (eqb_bytes i) known) (j_blocked cj) = true /\ existsb is_bad (j_ids cj) = false).
Proof. exact json_to_client_total. Qed.
Print Assumptions C04_http_conversion_total.

(** Every field of the converted record in terms of the body alone; the
    safe-search configuration AND the engine come from [body_ss]. *)
Theorem C04_http_fields_as_body : forall known g cj c x,
  json_to_client known g cj = JOk c x -> as_body g cj c x.
Proof. exact json_fields. Qed.
Print Assumptions C04_http_fields_as_body.

(** The CURRENT [safe_search] object wins whenever the body has one, also
    against a contradictory deprecated flag; the flag counts only without it. *)
Theorem C04_http_current_object_wins : forall cj s, j_ss cj = Some s -> body_ss cj = s.
Proof. exact current_object_wins. Qed.
Print Assumptions C04_http_current_object_wins.

Theorem C04_http_deprecated_flag_alone : forall cj,
  j_ss cj = None -> body_ss cj = if j_ss_dep cj then all_on_ss else zero_ss.
Proof. exact deprecated_flag_alone. Qed.
Print Assumptions C04_http_deprecated_flag_alone.

(** Every history of add / update / delete requests, accepted or refused,
    decodable or not, from the empty container keeps the registry one the
    loader could have produced (hence [Inv], records validated and normalized)
    with every engine built from the stored configuration; so does any history
    from a registry Init loaded. *)
Theorem C04_http_good_any_history : forall cfg known ops, HGood cfg known (hrun cfg known ops empty_hreg).
Proof. exact http_good_any_history. Qed.
Print Assumptions C04_http_good_any_history.

Theorem C04_http_good_from_loaded : forall cfg known objs r ops,
  load cfg known objs = LOk r -> HGood cfg known (hrun cfg known ops (to_hreg r)).
Proof.
  exact (fun cfg known objs r ops H => HGood_run cfg known ops _ (HGood_loaded cfg known r (load_good cfg known objs r H))).
Qed.
Print Assumptions C04_http_good_from_loaded.

Theorem C04_http_index_consistent : forall cfg known ops, Inv (fst (hrun cfg known ops empty_hreg)).
Proof. exact (fun cfg known ops => g_inv _ _ _ (hg_good _ _ _ (http_good_any_history cfg known ops))). Qed.
Print Assumptions C04_http_index_consistent.

Theorem C04_http_failed_request_is_noop : forall cfg known r o r' e,
  http_step cfg known r o = (r', e) -> e <> HOk -> r' = r.
Proof. exact http_fail_noop. Qed.
Print Assumptions C04_http_failed_request_is_noop.

(** A request leaves every client other than its target exactly as it was,
    record, safe-search configuration and engine. *)
Theorem C04_http_other_clients_untouched : forall cfg known r o r' e u,
  Inv (fst r) -> http_step cfg known r o = (r', e) -> target r o <> Some u ->
  deref (fst r') u = deref (fst r) u /\ hextra_of r' u = hextra_of r u.
Proof. exact http_step_frame. Qed.
Print Assumptions C04_http_other_clients_untouched.

(** WHICH ENGINE ANSWERS.  A request attributed to a client that opted out of
    the global settings: for every service the verdict of
    DNSFilter.checkSafeSearch is that of the CLIENT's stored per-service
    switches, whatever the global engine holds ... *)
Theorem C04_http_own_safe_search : forall cfg known r dhcp id a g global u c,
  HGood cfg known r ->
  acf_find (fst r) dhcp id a = Some u -> deref (fst r) u = Some c -> c_own_settings c = true ->
  exists es, h_acf r dhcp id a g = Some es /\
    es_settings es = apply_client c g /\
    forall v, check_safe_search global true es v = engine_rewrites (x_ss (hx_extra (hextra_of r u))) v.
Proof. exact verdict_own. Qed.
Print Assumptions C04_http_own_safe_search.

(** ... and that of the global engine under the global switch for a client
    that did not, and for nobody's request: "exactly when". *)
Theorem C04_http_global_safe_search_otherwise : forall r dhcp id a g global,
  (forall u c, acf_find (fst r) dhcp id a = Some u -> deref (fst r) u = Some c -> c_own_settings c = false ->
     exists es, h_acf r dhcp id a g = Some es /\
       forall v, check_safe_search global true es v = s_safesearch g && engine_rewrites global v) /\
  (acf_find (fst r) dhcp id a = None ->
     exists es, h_acf r dhcp id a g = Some es /\ es_settings es = g /\
       forall v, check_safe_search global true es v = s_safesearch g && engine_rewrites global v).
Proof.
  exact (fun r dhcp id a g global =>
    conj (fun u c F D O => verdict_global_client r dhcp id a g global u c F D O)
         (verdict_nobody r dhcp id a g global)).
Qed.
Print Assumptions C04_http_global_safe_search_otherwise.

(** After ANY history the record stored under a uid is the conversion of the
    body that last set it (tags sorted, the storage's uid), with its engine. *)
Theorem C04_http_history_as_body : forall cfg known ops,
  let rb := hrun_track cfg known ops empty_hreg [] in
  HGood cfg known (fst rb) /\ AsBody known (fst rb) (snd rb).
Proof. exact http_history_as_body. Qed.
Print Assumptions C04_http_history_as_body.

(** THE PROPERTY OVER HTTP: after any history, the effective settings of any
    request are those the CURRENT fields of the last accepted body of its
    client state: own flags and own per-service safe-search verdicts exactly
    when [use_global_settings] is false, the global ones otherwise; the own
    blocked services exactly when [use_global_blocked_services] is false. *)
Theorem C04_http_effective_as_body : forall cfg known ops dhcp id a g global u,
  let rb := hrun_track cfg known ops empty_hreg [] in
  acf_find (fst (fst rb)) dhcp id a = Some u ->
  exists cj es,
    body_of (snd rb) u = Some cj /\ h_acf (fst rb) dhcp id a g = Some es /\
    s_client_name (es_settings es) = j_name cj /\
    s_tags (es_settings es) = sort_names (j_tags cj) /\
    (j_use_global_settings cj = false ->
       s_filtering (es_settings es) = j_filtering cj /\
       s_parental (es_settings es) = j_parental cj /\
       s_safebrowsing (es_settings es) = j_safebrowsing cj /\
       s_safesearch (es_settings es) = ss_enabled (body_ss cj) /\
       forall v, check_safe_search global true es v = engine_rewrites (body_ss cj) v) /\
    (j_use_global_settings cj = true ->
       s_filtering (es_settings es) = s_filtering g /\
       s_parental (es_settings es) = s_parental g /\
       s_safebrowsing (es_settings es) = s_safebrowsing g /\
       s_safesearch (es_settings es) = s_safesearch g /\
       forall v, check_safe_search global true es v = s_safesearch g && engine_rewrites global v) /\
    (j_use_global_blocked cj = false ->
       s_blocked (es_settings es) = Some (copy_blocked (j_sched cj) (j_blocked cj))) /\
    (j_use_global_blocked cj = true -> s_blocked (es_settings es) = s_blocked g).
Proof. exact http_effective_as_body. Qed.
Print Assumptions C04_http_effective_as_body.

(** GET /control/clients after any history: exactly the stored clients, each
    in the canonical JSON form of the body that last set it, in strictly
    increasing name order. *)
Theorem C04_http_get_after_history : forall cfg known ops,
  let rb := hrun_track cfg known ops empty_hreg [] in
  (forall j, In j (http_get (fst rb)) <->
     exists u c cj, deref (fst (fst rb)) u = Some c /\ body_of (snd rb) u = Some cj /\ j = canon_json cj) /\
  StronglySorted (fun a b => cmp_bytes (j_name a) (j_name b) = Lt) (http_get (fst rb)).
Proof. exact http_get_after_history. Qed.
Print Assumptions C04_http_get_after_history.

(** The JSON form loses nothing: what GET returned, posted as the body of an
    update, converts to the very record and engine (cf. C04_config_roundtrip
    for the YAML form). *)
Theorem C04_http_json_roundtrip : forall cfg known r u c,
  HGood cfg known r -> deref (fst r) u = Some c -> x_nil_sched (hx_extra (hextra_of r u)) = false ->
  json_to_client known u (client_to_json c (hx_extra (hextra_of r u))) = JOk c (hextra_of r u).
Proof. exact json_roundtrip. Qed.
Print Assumptions C04_http_json_roundtrip.

(** Save + restart after any history: same records, same configurations and
    engines, so the same settings and verdicts for every request. *)
Theorem C04_http_restart_same : forall cfg known r,
  HGood cfg known r ->
  exists r', restart cfg known r = Some r' /\ HGood cfg known r' /\
    (forall u, deref (fst r) u = deref (fst r') u) /\
    (forall u c, deref (fst r) u = Some c -> hextra_of r' u = hextra_of r u) /\
    (forall dhcp id a g, h_acf r' dhcp id a g = h_acf r dhcp id a g).
Proof. exact restart_same. Qed.
Print Assumptions C04_http_restart_same.

Example C04_http_premises_satisfiable :
  let r3 := hrun ex_conf_cfg [] (firstn 3 ex_ops_http) empty_hreg in
  let r4 := hrun ex_conf_cfg [] ex_ops_http empty_hreg in
  acf_find (fst r3) (fun _ => None) [] (v4 192 168 7 7) = Some 1 /\
  ex_verdicts r3 (v4 192 168 7 7) = Some [true; true; true; true; true; true; false] /\
  ex_verdicts r3 (v4 192 168 7 8) = Some [true; true; true; true; true; true; true] /\
  ex_verdicts r3 (v4 192 168 7 99) = Some [true; true; true; true; true; true; true] /\
  snd (http_step ex_conf_cfg [] (hrun ex_conf_cfg [] (firstn 2 ex_ops_http) empty_hreg)
         (nth 2 ex_ops_http (HDelete None))) = HStore EIP /\
  ex_verdicts r4 (v4 192 168 7 8) = Some [true; true; true; true; true; true; false] /\
  map j_name (http_get r4) = [[108]; [116]] /\
  option_map (fun r => ex_verdicts r (v4 192 168 7 8)) (restart ex_conf_cfg [] r4) =
    Some (Some [true; true; true; true; true; true; false]).
Proof. exact example_http_history. Qed.

(** * Round 9: the lowest precedence level against the real DHCP server;
      rejected static-lease calls *)
From AGH Require Import Model.ClientLease Proofs.ClientLease.
From AGH Require Model.Dhcp4.

(** What dhcpd's FindMACbyIP answers is the hardware address of a lease of
    that address that is IN the server's table, static or not yet expired. *)
Theorem C04_lease_answer_from_held_lease : forall now s ip m,
  Dhcp4.mac_by_ip now s ip = m -> m <> 0 ->
  exists l, In l (Dhcp4.leases s) /\ Dhcp4.l_ip l = ip /\ Dhcp4.l_mac l = m /\
            (Dhcp4.l_static l = true \/ (now < Dhcp4.l_exp l)%Z).
Proof. exact answer_from_held_lease. Qed.
Print Assumptions C04_lease_answer_from_held_lease.

(** A REJECTED AddStaticLease / UpdateStaticLease / RemoveStaticLease (duplicate
    host name, duplicate hardware address or address, outside the subnet, the
    gateway's address, no such lease ...) leaves no lease in the table that was
    not there before (up to a cleared host name). *)
Theorem C04_rejected_lease_op_creates_no_lease : forall c s now busy o s',
  static_op o -> Dhcp4.step c s now busy o = (s', Dhcp4.RApi false) -> no_new_lease s s'.
Proof. exact rejected_static_op_no_new_lease. Qed.
Print Assumptions C04_rejected_lease_op_creates_no_lease.

(** Hence after a rejected call every answer of the storage's lease oracle is
    the hardware address of a lease of that address held BEFORE the call: the
    rejected lease attributes nothing. *)
Theorem C04_rejected_lease_op_no_new_answer : forall c s now busy o s' a mb,
  static_op o -> Dhcp4.step c s now busy o = (s', Dhcp4.RApi false) ->
  lease_oracle now s' a = Some mb ->
  exists l, In l (Dhcp4.leases s) /\ ip_of_addr a = Some (Dhcp4.l_ip l) /\
            mac_bytes (Dhcp4.l_mac l) = mb /\
            (Dhcp4.l_static l = true \/ (now < Dhcp4.l_exp l)%Z).
Proof. exact rejected_lease_op_no_new_answer. Qed.
Print Assumptions C04_rejected_lease_op_no_new_answer.

(** In every state of the DHCP server the storage attributes by the full
    precedence with the server's FindMACbyIP at the lowest level, and a
    level-4 attribution goes through a held lease of the request's address
    whose hardware address the client owns. *)
Theorem C04_lease_attr_resolves : forall ix now s id a,
  Inv ix -> resolves ix (lease_oracle now s) id a (lease_attr ix now s id a).
Proof. exact lease_attr_resolves. Qed.
Print Assumptions C04_lease_attr_resolves.

Theorem C04_lease_attr_through_held_lease : forall ix now s id a u,
  Inv ix -> no_cid ix id -> no_ip ix a -> no_cidr ix a ->
  lease_attr ix now s id a = Some u ->
  exists l, In l (Dhcp4.leases s) /\ ip_of_addr a = Some (Dhcp4.l_ip l) /\
            owner_of ix c_macs (mac_bytes (Dhcp4.l_mac l)) u.
Proof. exact lease_attr_through_held_lease. Qed.
Print Assumptions C04_lease_attr_through_held_lease.

(** Premises satisfiable: (box, nas, .10) accepted, (box, kid's MAC, .11)
    rejected for the host name: the request from .11 is nobody's; it is the
    kid's once .11 is really leased to that hardware address. *)
Example C04_rejected_lease_scenario :
  let r1 := Dhcp4.step ex_conf Dhcp4.empty_state 0 [] (Dhcp4.OStaticAdd ex_nas_mac ex_ip10 [98;111;120]) in
  let r2 := Dhcp4.step ex_conf (fst r1) 0 [] (Dhcp4.OStaticAdd ex_kid_mac ex_ip11 [98;111;120]) in
  let r3 := Dhcp4.step ex_conf (fst r2) 0 [] (Dhcp4.OStaticAdd ex_kid_mac ex_ip11 [116;97;98]) in
  snd r1 = Dhcp4.RApi true /\ snd r2 = Dhcp4.RApi false /\ snd r3 = Dhcp4.RApi true /\
  lease_attr ex_lease_ix 0 (fst r2) [] ex_a11 = None /\
  lease_attr ex_lease_ix 0 (fst r3) [] ex_a11 = Some 1.
Proof. exact rejected_lease_scenario. Qed.

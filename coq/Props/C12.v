(** C12: login throttling stops guessing; sessions are valid only until expiry
    or logout.  Only statements here; proofs live in Proofs/RateLimit.v and
    Proofs/Session.v. *)
From AGH Require Import Base.Run Model.RateLimit Model.Session Proofs.RateLimit Proofs.Session Proofs.AuthPins Gen.AuthPins.
From stdpp Require Import gmap.
Local Open Scope Z_scope.

(** ** Throttling

    For every limiter configuration with a limit of at least one, every start
    state [s0], every timed history with a clock that does not go back
    ([wf_from]): let [f1 :: F'] be a burst of exactly [max] failed attempts of
    address [a] (attempts of other addresses anywhere in between, no other
    attempt of [a]), whose first attempt [f1] opens a record (no record of [a]
    is live when it is checked: there was none, a success removed it, or its
    deadline has passed), all of them checked no later than one [ttl] (the
    minute) after [f1] was counted, the last being [fk].  Let [G] be any
    attempts at all.  Then an attempt [x] of [a] checked before
    [a_now2 fk + block] is answered 429 with a positive time left and does not
    touch the record of [a], whatever its password; and the burst itself was
    evaluated and counted up to the limit. *)
Theorem C12_block_after_limit :
  forall (c : rl_conf) (a : bytes), (1 <= rl_max c)%N ->
  forall (s0 : rl_state) (t0 : Z) (f1 : att) (F' : list att) (fk : att) (G : list att) (x : att),
    wf_from t0 ((f1 :: F') ++ G ++ [x]) ->
    burst a (N.to_nat (rl_max c)) (f1 :: F') fk ->
    a_addr f1 = a ->
    ~ live (a_now f1) s0 a ->
    Forall (fun e : att => a_addr e = a -> (a_now e <= a_now2 f1 + rl_ttl c)%Z) F' ->
    a_addr x = a ->
    (a_now x < a_now2 fk + rl_block c)%Z ->
    let s := fst (run_logins c s0 ((f1 :: F') ++ G)) in
    exists lft : Z, (0 < lft)%Z /\
      login c x s = (rl_cleanup (a_now x) s, L429 lft) /\
      rl_cleanup (a_now x) s !! a = s !! a /\
      fst (run_logins c s0 (f1 :: F')) !! a =
        Some {| fa_until := (a_now2 fk + rl_block c)%Z; fa_num := rl_max c |}.
Proof. exact block_after_limit. Qed.
Print Assumptions C12_block_after_limit.

Example C12_block_premises_satisfiable :
  let c := {| rl_ttl := sec 60; rl_block := sec 900; rl_max := 3 |} in
  let a := sliding_addr in
  let f t := {| a_now := sec t; a_now2 := sec t; a_addr := a; a_hdr := Some [49;50;55;46;48;46;48;46;49]%N; a_trusted := true; a_ok := false |} in
  let o := {| a_now := sec 5; a_now2 := sec 5; a_addr := [120]%N; a_hdr := None; a_trusted := false; a_ok := false |} in
  let x := {| a_now := sec 919; a_now2 := sec 919; a_addr := a; a_hdr := Some [49;48;46;48;46;48;46;57]%N; a_trusted := true; a_ok := true |} in
  wf_from 0 ([f 0; o; f 10; f 20] ++ [] ++ [x]) /\
  burst a (N.to_nat (rl_max c)) [f 0; o; f 10; f 20] (f 20) /\
  ~ live (sec 0) ∅ a /\
  Forall (fun e => a_addr e = a -> (a_now e <= a_now2 (f 0) + rl_ttl c)%Z) [o; f 10; f 20] /\
  (a_now x < a_now2 (f 20) + rl_block c)%Z /\
  snd (run_logins c ∅ [f 0; o; f 10; f 20; x]) = [L403; L403; L403; L403; L429 (sec 1)].
Proof. exact block_premises_satisfiable. Qed.
Print Assumptions C12_block_premises_satisfiable.

(** An attempt [att] carries, besides the peer address [a_addr], what the
    request claims in proxy headers ([a_hdr]) and whether trusted_proxies
    accepts the claim ([a_trusted]); the theorem above holds for every choice
    of these by the sender.  Directly: decisions and table are a function of
    the peer addresses alone. *)
Theorem C12_headers_irrelevant : forall c h h', Forall2 same_but_headers h h' ->
  forall s, run_logins c s h = run_logins c s h'.
Proof. exact run_logins_ignores_headers. Qed.
Print Assumptions C12_headers_irrelevant.

(** [login] is [login_with UsePeer UsePeer]; the source still says so. *)
Theorem C12_limiter_keys_code :
  login_check_key = Some UsePeer /\ login_count_key = Some UsePeer.
Proof. exact limiter_keys_are_peer. Qed.
Print Assumptions C12_limiter_keys_code.

(** Any other choice breaks the property: counting under the logged address
    (a fixed X-Real-IP inside trusted_proxies), or checking and counting
    under it (a rotating one), on a history where the code answers 429 from
    the fourth attempt on. *)
Example C12_key_mismatch_refuted :
  wf_from 0 spoof_fixed /\
  burst sliding_addr 3 (firstn 3 spoof_fixed) (spoof_att 2) /\
  snd (run_logins sliding_conf ∅ spoof_fixed) = [L403; L403; L403; L429 (sec 899); L429 (sec 898); L429 (sec 897)] /\
  snd (run_logins_with UsePeer UseLog sliding_conf ∅ spoof_fixed) = [L403; L403; L403; L403; L403; L403] /\
  snd (run_logins sliding_conf ∅ spoof_rotating) = [L403; L403; L403; L429 (sec 899); L429 (sec 898); L429 (sec 897)] /\
  snd (run_logins_with UseLog UseLog sliding_conf ∅ spoof_rotating) = [L403; L403; L403; L403; L403; L403].
Proof. exact key_mismatch_refuted. Qed.
Print Assumptions C12_key_mismatch_refuted.

(** A successful login that is evaluated removes the record: the next failure
    of that address opens a new one. *)
Theorem C12_success_clears : forall c e s,
  a_ok e = true -> evaluated (snd (login c e s)) = true ->
  snd (login c e s) = L200 /\ fst (login c e s) !! a_addr e = None /\
  forall t, ~ live t (fst (login c e s)) (a_addr e).
Proof. exact success_clears. Qed.
Print Assumptions C12_success_clears.

(** Below the limit nobody is rejected (so a correct password before the
    limit is always evaluated and clears the count). *)
Theorem C12_below_limit_evaluated : forall c e s,
  (forall r, s !! a_addr e = Some r -> (fa_num r < rl_max c)%N) ->
  evaluated (snd (login c e s)) = true.
Proof. exact below_limit_evaluated. Qed.
Print Assumptions C12_below_limit_evaluated.

(** The decisions taken for one address are those of the history with the
    attempts of all other addresses deleted. *)
Theorem C12_other_addresses_unaffected : forall a c s t h,
  wf_from t h ->
  run_for a c s h = snd (run_logins c s (filter (fun e => a_addr e = a) h)).
Proof. exact other_addresses_unaffected. Qed.
Print Assumptions C12_other_addresses_unaffected.

(** The minute is counted from the failure that opens a record.  Under a
    sliding reading the code would be in violation: limit 3, failures at 0,
    59, 61, 62 s, and the attempt at 63 s is still evaluated.  Recorded, not
    claimed as a violation. *)
Example C12_sliding_window_refuted :
  wf_from 0 sliding_hist /\
  snd (run_logins sliding_conf ∅ sliding_hist) = [L403; L403; L403; L403; L403].
Proof. exact sliding_window_refuted. Qed.
Print Assumptions C12_sliding_window_refuted.

(** ** Sessions *)

(** In every reachable state the map in memory and the bucket on disk agree. *)
Theorem C12_mirror : forall ttl h, ss_mem (srun ttl s_init h) = ss_disk (srun ttl s_init h).
Proof. exact reachable_mirror. Qed.
Print Assumptions C12_mirror.

(** "Only": a token authenticates at [t] only if an earlier event (its login,
    or a request that was itself accepted) set its expiry from a clock value
    [t0] with [t] before [t0 + ttl] in 32-bit arithmetic, with no logout of
    the token since.  For every history, restarts included. *)
Theorem C12_session_window : forall ttl h t tok,
  authenticates ttl t tok (srun ttl s_init h) = true ->
  exists e, granted ttl h tok e /\ (u32 t < e)%N.
Proof. exact session_window_sound. Qed.
Print Assumptions C12_session_window.

Theorem C12_never_issued : forall ttl h t tok,
  Forall (fun o => forall t0 u, o <> SNew t0 tok u) h ->
  authenticates ttl t tok (srun ttl s_init h) = false.
Proof. exact never_issued. Qed.
Print Assumptions C12_never_issued.

Theorem C12_logout_final : forall ttl h1 h2 t tok,
  Forall (fun o => forall t0 u, o <> SNew t0 tok u) h2 ->
  authenticates ttl t tok (srun ttl s_init (h1 ++ SLogout tok :: h2)) = false.
Proof. exact logout_final. Qed.
Print Assumptions C12_logout_final.

Theorem C12_expired_final : forall ttl h1 h2 now t tok,
  snd (check_session ttl now tok (srun ttl s_init h1)) = CSExpired ->
  Forall (fun o => forall t0 u, o <> SNew t0 tok u) h2 ->
  authenticates ttl t tok (srun ttl s_init (h1 ++ SCheck now tok :: h2)) = false.
Proof. exact expired_final. Qed.
Print Assumptions C12_expired_final.

(** "Always inside": from its creation at [t0] until [t0 + ttl] a token that
    is not logged out authenticates, whatever else happens in between. *)
Theorem C12_session_window_complete : forall ttl h1 h2 t0 t tok u,
  Forall (fun o => o <> SLogout tok /\ (forall t' u', o <> SNew t' tok u') /\
                   (forall t', op_time o = Some t' -> (t0 <= t' <= t)%N)) h2 ->
  (t0 <= t)%N -> (t < t0 + ttl)%N -> (t + ttl < 4294967296)%N ->
  authenticates ttl t tok (srun ttl s_init (h1 ++ SNew t0 tok u :: h2)) = true.
Proof. exact session_window_complete. Qed.
Print Assumptions C12_session_window_complete.

(** Any number of restarts, at any instants up to [t], leave the answer for
    every token at [t] as it was. *)
Theorem C12_restart_preserves : forall ttl h nows t tok,
  Forall (fun n => (u32 n <= u32 t)%N) nows ->
  authenticates ttl t tok (restarts nows (srun ttl s_init h)) =
  authenticates ttl t tok (srun ttl s_init h).
Proof. exact restart_preserves. Qed.
Print Assumptions C12_restart_preserves.

Example C12_session_premises_satisfiable :
  let h := [SNew 1000 7 [97%N]; SCheck 1500 7; SRestart 2000; SCheck 2500 7] in
  authenticates 3600 3000 7 (srun 3600 s_init h) = true /\
  authenticates 3600 4600 7 (srun 3600 s_init h) = false /\
  authenticates 3600 3000 7 (srun 3600 s_init (h ++ [SLogout 7; SRestart 3000])) = false /\
  authenticates 3600 3000 8 (srun 3600 s_init h) = false.
Proof. exact session_premises_satisfiable. Qed.
Print Assumptions C12_session_premises_satisfiable.

(** C12: login throttling stops guessing; sessions are valid only until expiry
    or logout.  Only statements here; proofs live in Proofs/RateLimit.v and
    Proofs/Session.v. *)
From AGH Require Import Base.Run Model.RateLimit Model.Session Model.SessionConc Model.LoginConc Model.AuthHttp Model.AuthLife Model.LimiterLife Proofs.RateLimit Proofs.Session Proofs.SessionConc Proofs.LoginConc Proofs.AuthLife Proofs.LimiterLife Proofs.LimiterCfg Proofs.AuthPins Gen.AuthPins.
From stdpp Require Import gmap.
Local Open Scope Z_scope.

(** ** Throttling

    For every limiter configuration with a limit of at least one, every start
    state [s0], every timed history with a clock that does not go back
    ([wf_from]): let [f1 :: F'] be a burst of exactly [max] failed attempts of
    address [a] (attempts of other addresses anywhere in between, no other
    attempt of [a]), whose first attempt [f1] opens a record (no record of [a]
    is live when it is checked: there was none, a success removed it, or its
    deadline has passed), all of them checked no later than one [ttl] (the
    minute) after [f1] was counted, the last being [fk].  Let [G] be any
    attempts at all.  Then an attempt [x] of [a] checked before
    [a_now2 fk + block] is answered 429 with a positive time left and does not
    touch the record of [a], whatever its password; and the burst itself was
    evaluated and counted up to the limit. *)
Theorem C12_block_after_limit :
  forall (c : rl_conf) (a : bytes), (1 <= rl_max c)%N ->
  forall (s0 : rl_state) (t0 : Z) (f1 : att) (F' : list att) (fk : att) (G : list att) (x : att),
    wf_from t0 ((f1 :: F') ++ G ++ [x]) ->
    burst a (N.to_nat (rl_max c)) (f1 :: F') fk ->
    a_addr f1 = a ->
    ~ live (a_now f1) s0 a ->
    Forall (fun e : att => a_addr e = a -> (a_now e <= a_now2 f1 + rl_ttl c)%Z) F' ->
    a_addr x = a ->
    (a_now x < a_now2 fk + rl_block c)%Z ->
    let s := fst (run_logins c s0 ((f1 :: F') ++ G)) in
    exists lft : Z, (0 < lft)%Z /\
      login c x s = (rl_cleanup (a_now x) s, L429 lft) /\
      rl_cleanup (a_now x) s !! a = s !! a /\
      fst (run_logins c s0 (f1 :: F')) !! a =
        Some {| fa_until := (a_now2 fk + rl_block c)%Z; fa_num := rl_max c |}.
Proof. exact block_after_limit. Qed.
Print Assumptions C12_block_after_limit.

Example C12_block_premises_satisfiable :
  let c := {| rl_ttl := sec 60; rl_block := sec 900; rl_max := 3 |} in
  let a := sliding_addr in
  let f t := {| a_now := sec t; a_now2 := sec t; a_addr := a; a_hdr := Some [49;50;55;46;48;46;48;46;49]%N; a_trusted := true; a_ok := false |} in
  let o := {| a_now := sec 5; a_now2 := sec 5; a_addr := [120]%N; a_hdr := None; a_trusted := false; a_ok := false |} in
  let x := {| a_now := sec 919; a_now2 := sec 919; a_addr := a; a_hdr := Some [49;48;46;48;46;48;46;57]%N; a_trusted := true; a_ok := true |} in
  wf_from 0 ([f 0; o; f 10; f 20] ++ [] ++ [x]) /\
  burst a (N.to_nat (rl_max c)) [f 0; o; f 10; f 20] (f 20) /\
  ~ live (sec 0) ∅ a /\
  Forall (fun e => a_addr e = a -> (a_now e <= a_now2 (f 0) + rl_ttl c)%Z) [o; f 10; f 20] /\
  (a_now x < a_now2 (f 20) + rl_block c)%Z /\
  snd (run_logins c ∅ [f 0; o; f 10; f 20; x]) = [L403; L403; L403; L403; L429 (sec 1)].
Proof. exact block_premises_satisfiable. Qed.
Print Assumptions C12_block_premises_satisfiable.

(** An attempt [att] carries, besides the peer address [a_addr], what the
    request claims in proxy headers ([a_hdr]) and whether trusted_proxies
    accepts the claim ([a_trusted]); the theorem above holds for every choice
    of these by the sender.  Directly: decisions and table are a function of
    the peer addresses alone. *)
Theorem C12_headers_irrelevant : forall c h h', Forall2 same_but_headers h h' ->
  forall s, run_logins c s h = run_logins c s h'.
Proof. exact run_logins_ignores_headers. Qed.
Print Assumptions C12_headers_irrelevant.

Example C12_headers_premises_satisfiable : Forall2 same_but_headers spoof_fixed spoof_rotating.
Proof. exact headers_premises_satisfiable. Qed.
Print Assumptions C12_headers_premises_satisfiable.

(** [login] is [login_with UsePeer UsePeer]; the source still says so. *)
Theorem C12_limiter_keys_code :
  login_check_key = Some UsePeer /\ login_count_key = Some UsePeer.
Proof. exact limiter_keys_are_peer. Qed.
Print Assumptions C12_limiter_keys_code.

(** Any other choice breaks the property: counting under the logged address
    (a fixed X-Real-IP inside trusted_proxies), or checking and counting
    under it (a rotating one), on a history where the code answers 429 from
    the fourth attempt on. *)
Example C12_key_mismatch_refuted :
  wf_from 0 spoof_fixed /\
  burst sliding_addr 3 (firstn 3 spoof_fixed) (spoof_att 2) /\
  snd (run_logins sliding_conf ∅ spoof_fixed) = [L403; L403; L403; L429 (sec 899); L429 (sec 898); L429 (sec 897)] /\
  snd (run_logins_with UsePeer UseLog sliding_conf ∅ spoof_fixed) = [L403; L403; L403; L403; L403; L403] /\
  snd (run_logins sliding_conf ∅ spoof_rotating) = [L403; L403; L403; L429 (sec 899); L429 (sec 898); L429 (sec 897)] /\
  snd (run_logins_with UseLog UseLog sliding_conf ∅ spoof_rotating) = [L403; L403; L403; L403; L403; L403].
Proof. exact key_mismatch_refuted. Qed.
Print Assumptions C12_key_mismatch_refuted.

(** A successful login that is evaluated removes the record: the next failure
    of that address opens a new one. *)
Theorem C12_success_clears : forall c e s,
  a_ok e = true -> evaluated (snd (login c e s)) = true ->
  snd (login c e s) = L200 /\ fst (login c e s) !! a_addr e = None /\
  forall t, ~ live t (fst (login c e s)) (a_addr e).
Proof. exact success_clears. Qed.
Print Assumptions C12_success_clears.

(** Below the limit nobody is rejected (so a correct password before the
    limit is always evaluated and clears the count). *)
Theorem C12_below_limit_evaluated : forall c e s,
  (forall r, s !! a_addr e = Some r -> (fa_num r < rl_max c)%N) ->
  evaluated (snd (login c e s)) = true.
Proof. exact below_limit_evaluated. Qed.
Print Assumptions C12_below_limit_evaluated.

(** The decisions taken for one address are those of the history with the
    attempts of all other addresses deleted. *)
Theorem C12_other_addresses_unaffected : forall a c s t h,
  wf_from t h ->
  run_for a c s h = snd (run_logins c s (filter (fun e => a_addr e = a) h)).
Proof. exact other_addresses_unaffected. Qed.
Print Assumptions C12_other_addresses_unaffected.

(** The minute is counted from the failure that opens a record.  Under a
    sliding reading the code would be in violation: limit 3, failures at 0,
    59, 61, 62 s, and the attempt at 63 s is still evaluated.  Recorded, not
    claimed as a violation. *)
Example C12_sliding_window_refuted :
  wf_from 0 sliding_hist /\
  snd (run_logins sliding_conf ∅ sliding_hist) = [L403; L403; L403; L403; L403].
Proof. exact sliding_window_refuted. Qed.
Print Assumptions C12_sliding_window_refuted.

(** ** Sessions

    The map in memory is keyed by the cookie STRING, the bucket of
    sessions.db by the decoded bytes; [checkSession] looks the string up as
    sent, [removeSession] deletes the string from the map and the bytes
    [hex.DecodeString] yields from the bucket, a reload re-encodes the bucket
    keys in lower case (Model/Session.v).  Histories: [SNew] a login issuing
    a token, [SCheck] a request with a cookie of any spelling, [SLogout] a
    GET /control/logout with a cookie of any spelling (optionalAuth's check,
    then removeSession), [SRemove] removeSession called directly, [SRestart].
    [wf_new]: issued tokens are byte strings.  [wf_http]: in addition a direct
    [SRemove] only with a canonical (lower-case, even-length, all-hex)
    spelling: every history that comes in over HTTP. *)

(** The key handling of [check_session] / [logout] / [logout_request] is the
    source's: tools/routes re-reads it on every run (the lookup and the map
    deletions use the cookie string as sent, the bucket deletion its
    [hex.DecodeString], the HTTP callers pass the cookie's value). *)
Theorem C12_session_keys_code :
  session_check_as_sent && session_remove_as_sent && session_remove_decodes && session_cookie_value = true.
Proof. exact session_keys_as_modelled. Qed.
Print Assumptions C12_session_keys_code.

(** In every state reachable over HTTP the map in memory is the bucket on
    disk under [hex.EncodeToString]. *)
Theorem C12_mirror : forall ttl h, Forall wf_http h ->
  ss_mem (srun ttl s_init h) = kmap hex_encode (ss_disk (srun ttl s_init h)) /\
  map_Forall (fun k _ => is_bytes k) (ss_disk (srun ttl s_init h)).
Proof. exact reachable_mirror. Qed.
Print Assumptions C12_mirror.

(** For EVERY history (direct removals with any spelling included) the bucket
    holds nothing that memory does not: a restart cannot bring a session
    back. *)
Theorem C12_restart_no_resurrection : forall ttl h now sp s,
  Forall wf_new h ->
  ss_mem (restart now (srun ttl s_init h)) !! sp = Some s -> ss_mem (srun ttl s_init h) !! sp = Some s.
Proof. exact restart_no_new. Qed.
Print Assumptions C12_restart_no_resurrection.

(** Only the spelling the token was issued with authenticates. *)
Theorem C12_only_canonical_spelling : forall ttl h t sp,
  Forall wf_new h -> authenticates ttl t sp (srun ttl s_init h) = true ->
  hex_encode (hex_decode_prefix sp) = sp.
Proof. exact only_canonical_authenticates. Qed.
Print Assumptions C12_only_canonical_spelling.

(** "Only": a cookie authenticates at [t] only if an earlier event (the login
    issuing this spelling, or a request with it that was itself accepted) set
    its expiry from a clock value [t0] with [t] before [t0 + ttl] in 32-bit
    arithmetic, with no logout request or removal with this spelling since.
    For every history, restarts included. *)
Theorem C12_session_window : forall ttl h t sp,
  Forall wf_new h ->
  authenticates ttl t sp (srun ttl s_init h) = true ->
  exists e, granted ttl h sp e /\ (u32 t < e)%N.
Proof. exact session_window_sound. Qed.
Print Assumptions C12_session_window.

Theorem C12_never_issued : forall ttl h t sp,
  Forall (fun o => wf_new o /\ ~ issues sp o) h ->
  authenticates ttl t sp (srun ttl s_init h) = false.
Proof. exact never_issued. Qed.
Print Assumptions C12_never_issued.

(** An accepted logout request kills the TOKEN: no spelling that decodes to
    the same key authenticates afterwards, at any time, across restarts and
    whatever else happens, unless the same 16 bytes are issued again. *)
Theorem C12_logout_final : forall ttl h1 h2 now t sp sp',
  Forall wf_new h1 ->
  authenticates ttl now sp (srun ttl s_init h1) = true ->
  hex_decode_prefix sp' = hex_decode_prefix sp ->
  Forall (fun o => wf_new o /\ forall t0 raw u, o = SNew t0 raw u -> raw <> hex_decode_prefix sp) h2 ->
  authenticates ttl t sp' (srun ttl s_init (h1 ++ SLogout now sp :: h2)) = false.
Proof. exact logout_final. Qed.
Print Assumptions C12_logout_final.

(** Any logout request or removal, accepted or not, with any spelling: that
    spelling does not authenticate afterwards. *)
Theorem C12_removed_final : forall ttl h1 h2 o t sp,
  removes sp o -> Forall wf_new h1 ->
  Forall (fun o => wf_new o /\ ~ issues sp o) h2 ->
  authenticates ttl t sp (srun ttl s_init (h1 ++ o :: h2)) = false.
Proof. exact removed_final. Qed.
Print Assumptions C12_removed_final.

Theorem C12_expired_final : forall ttl h1 h2 now t sp,
  Forall wf_new h1 ->
  snd (check_session ttl now sp (srun ttl s_init h1)) = CSExpired ->
  Forall (fun o => wf_new o /\ ~ issues sp o) h2 ->
  authenticates ttl t sp (srun ttl s_init (h1 ++ SCheck now sp :: h2)) = false.
Proof. exact expired_final. Qed.
Print Assumptions C12_expired_final.

(** "Always inside": from its creation at [t0] until [t0 + ttl] a token
    authenticates under the spelling it was issued with, whatever else happens
    in between (requests and logout requests with other spellings of it
    included), as long as no logout request or removal uses that spelling, no
    direct removal uses another spelling of it, and it is not issued twice. *)
Theorem C12_session_window_complete : forall ttl h1 h2 t0 t raw u,
  Forall wf_new (h1 ++ SNew t0 raw u :: h2) ->
  Forall (fun o => spares raw o /\ (forall t', op_time o = Some t' -> (t0 <= t' <= t)%N)) h2 ->
  (t0 <= t)%N -> (t < t0 + ttl)%N -> (t + ttl < 4294967296)%N ->
  authenticates ttl t (hex_encode raw) (srun ttl s_init (h1 ++ SNew t0 raw u :: h2)) = true.
Proof. exact session_window_complete. Qed.
Print Assumptions C12_session_window_complete.

(** Any number of restarts, at any instants up to [t], leave the answer for
    every cookie at [t] as it was. *)
Theorem C12_restart_preserves : forall ttl h nows t sp,
  Forall wf_http h ->
  Forall (fun n => (u32 n <= u32 t)%N) nows ->
  authenticates ttl t sp (restarts nows (srun ttl s_init h)) =
  authenticates ttl t sp (srun ttl s_init h).
Proof. exact restart_preserves. Qed.
Print Assumptions C12_restart_preserves.

(** Function level only, and why [C12_mirror] asks for [wf_http]:
    [removeSession] with the upper-case spelling of a live token empties the
    bucket entry and leaves the map entry (the session lives on until the next
    restart).  Over HTTP the same spelling is refused by the logout route and
    changes nothing. *)
Example C12_remove_other_spelling_refuted :
  let h := [SNew 1000 ex_raw [97%N]; SRemove ex_upper] in
  hex_decode_prefix ex_upper = ex_raw /\
  authenticates 3600 2000 (hex_encode ex_raw) (srun 3600 s_init h) = true /\
  ss_disk (srun 3600 s_init h) !! ex_raw = None /\
  authenticates 3600 2000 (hex_encode ex_raw) (srun 3600 s_init (h ++ [SRestart 1500])) = false /\
  authenticates 3600 2000 (hex_encode ex_raw) (srun 3600 s_init [SNew 1000 ex_raw [97%N]; SLogout 1200 ex_upper; SRestart 1500]) = true.
Proof. exact remove_other_spelling_refuted. Qed.
Print Assumptions C12_remove_other_spelling_refuted.

(** The two key-handling slips the theorems exclude: lower-casing on the check
    side only (an accepted logout leaves the session alive), no hex decoding
    on the removal side (a logged-out session is back after a restart). *)
Example C12_key_slips_refuted :
  let st := new_session 3600 1000 ex_raw [97%N] s_init in
  authenticates 3600 1100 (to_lower ex_upper) st = true /\
  authenticates 3600 1300 (to_lower ex_upper) (slip1_logout_request 3600 1200 ex_upper st) = true /\
  authenticates 3600 1300 (hex_encode ex_raw) (slip2_logout (hex_encode ex_raw) st) = false /\
  authenticates 3600 1300 (hex_encode ex_raw) (restart 1250 (slip2_logout (hex_encode ex_raw) st)) = true /\
  authenticates 3600 1300 (hex_encode ex_raw) (fst (logout_request 3600 1200 (hex_encode ex_raw) st)) = false /\
  authenticates 3600 1300 (hex_encode ex_raw) (restart 1250 (fst (logout_request 3600 1200 (hex_encode ex_raw) st))) = false.
Proof. exact key_slips_refuted. Qed.
Print Assumptions C12_key_slips_refuted.

Example C12_session_premises_satisfiable :
  let h := [SNew 1000 ex_tok [97%N]; SCheck 1500 ex_sp; SRestart 2000; SCheck 2500 ex_sp] in
  Forall wf_http h /\
  authenticates 3600 3000 ex_sp (srun 3600 s_init h) = true /\
  authenticates 3600 4600 ex_sp (srun 3600 s_init h) = false /\
  authenticates 3600 3000 ex_sp (srun 3600 s_init (h ++ [SLogout 2600 ex_sp; SRestart 3000])) = false /\
  authenticates 3600 3000 [48; 55; 67; 56]%N (srun 3600 s_init h) = false /\
  authenticates 3600 3000 [48; 56]%N (srun 3600 s_init h) = false.
Proof. exact session_premises_satisfiable. Qed.
Print Assumptions C12_session_premises_satisfiable.

(** The premises of C12_logout_final, C12_removed_final, C12_expired_final,
    C12_never_issued and C12_session_window_complete hold of a concrete
    history with another spelling of the token in play. *)
Example C12_final_premises_satisfiable :
  let h1 := [SNew 1000 ex_tok [97%N]] in
  let h2 := [SRestart 1300; SCheck 1400 ex_sp_upper; SNew 1500 ex_raw [98%N]] in
  Forall wf_new h1 /\
  authenticates 3600 1200 ex_sp (srun 3600 s_init h1) = true /\
  hex_decode_prefix ex_sp_upper = hex_decode_prefix ex_sp /\
  Forall (fun o => wf_new o /\ forall t0 raw u, o = SNew t0 raw u -> raw <> hex_decode_prefix ex_sp) h2 /\
  Forall (fun o => wf_new o /\ ~ issues ex_sp o) h2 /\
  removes ex_sp (SLogout 1200 ex_sp) /\
  snd (check_session 3600 5000 ex_sp (srun 3600 s_init h1)) = CSExpired /\
  Forall wf_new (h1 ++ [SCheck 1100 ex_sp_upper; SLogout 1150 ex_sp_upper; SRestart 1200]) /\
  Forall (fun o => spares ex_tok o /\ (forall t', op_time o = Some t' -> (1000 <= t' <= 1300)%N))
         [SCheck 1100 ex_sp_upper; SLogout 1150 ex_sp_upper; SRestart 1200].
Proof. exact final_premises_satisfiable. Qed.
Print Assumptions C12_final_premises_satisfiable.

(** ** Round 3: the limiter as initUsers builds it from the configuration

    [mk_limiter cfg] is home.go initUsers: a limiter exists iff
    [auth_attempts > 0 && block_auth_min > 0] (both unsigned), with the
    one-minute window, [block_auth_min] minutes as int64 nanoseconds
    ([block_dur]: conversion and multiplication wrap) and the configured
    limit; [login_opt] / [run_logins_opt] are handleLogin / newCookie with
    [Auth.rateLimiter] possibly nil.  The blocking theorem for EVERY
    configuration for which the code's condition creates a limiter: *)
Theorem C12_block_after_limit_configured :
  forall (cfg : auth_cfg) (a : bytes), (0 < ac_attempts cfg)%Z -> (0 < ac_block_min cfg)%Z ->
  exists c : rl_conf, mk_limiter cfg = Some c /\
    rl_max c = Z.to_N (ac_attempts cfg) /\ rl_ttl c = minute_ns /\ rl_block c = block_dur cfg /\
    forall (s0 : rl_state) (t0 : Z) (f1 : att) (F' : list att) (fk : att) (G : list att) (x : att),
      wf_from t0 ((f1 :: F') ++ G ++ [x]) ->
      burst a (N.to_nat (rl_max c)) (f1 :: F') fk ->
      a_addr f1 = a ->
      ~ live (a_now f1) s0 a ->
      Forall (fun e : att => a_addr e = a -> (a_now e <= a_now2 f1 + rl_ttl c)%Z) F' ->
      a_addr x = a ->
      (a_now x < a_now2 fk + rl_block c)%Z ->
      let s := fst (run_logins_opt (mk_limiter cfg) s0 ((f1 :: F') ++ G)) in
      exists lft : Z, (0 < lft)%Z /\
        login_opt (mk_limiter cfg) x s = (rl_cleanup (a_now x) s, L429 lft) /\
        rl_cleanup (a_now x) s !! a = s !! a /\
        fst (run_logins_opt (mk_limiter cfg) s0 (f1 :: F')) !! a =
          Some {| fa_until := (a_now2 fk + rl_block c)%Z; fa_num := rl_max c |}.
Proof. exact block_after_limit_configured. Qed.
Print Assumptions C12_block_after_limit_configured.

(** The block lasts the configured number of minutes, at least the window,
    up to 153722867 minutes (beyond that the int64 multiplication wraps). *)
Theorem C12_block_duration : forall cfg : auth_cfg,
  (0 <= ac_block_min cfg <= 153722867)%Z -> block_dur cfg = (ac_block_min cfg * minute_ns)%Z.
Proof. exact block_dur_exact. Qed.
Print Assumptions C12_block_duration.

(** Which configurations have no limiter: exactly [auth_attempts: 0] or
    [block_auth_min: 0]; this is the documented way to switch throttling off.
    Then every attempt is evaluated. *)
Theorem C12_throttling_disabled_iff : forall cfg : auth_cfg,
  mk_limiter cfg = None <-> (ac_attempts cfg <= 0)%Z \/ (ac_block_min cfg <= 0)%Z.
Proof. exact mk_limiter_absent_iff. Qed.
Print Assumptions C12_throttling_disabled_iff.

Theorem C12_disabled_config_unthrottled : forall (cfg : auth_cfg) (s : rl_state) (h : list att),
  (ac_attempts cfg <= 0)%Z \/ (ac_block_min cfg <= 0)%Z ->
  Forall (fun o => evaluated o = true) (snd (run_logins_opt (mk_limiter cfg) s h)).
Proof. exact disabled_config_unthrottled. Qed.
Print Assumptions C12_disabled_config_unthrottled.

(** The source still builds the limiter this way (tools/routes, re-read on
    every run). *)
Theorem C12_limiter_construction_code :
  limiter_cond_both_positive && limiter_built_from_config && limiter_reaches_auth &&
  limiter_ctor_stores_params && limiter_ttl_is_one_minute = true.
Proof. exact limiter_construction_as_modelled. Qed.
Print Assumptions C12_limiter_construction_code.

(** Requiring the block to outlast the window ([blockDur > failedAuthTTL])
    leaves [block_auth_min: 1] without a limiter. *)
Example C12_limiter_condition_slip_refuted :
  cond_code slip_cfg = true /\ mk_limiter_with cond_slip slip_cfg = None /\
  snd (run_logins_opt (mk_limiter_with cond_slip slip_cfg) ∅ slip_history) = [L403; L403; L403; L200] /\
  snd (run_logins_opt (mk_limiter slip_cfg) ∅ slip_history) =
    [L403; L403; L429 (59 * 1000000000); L429 (58 * 1000000000)].
Proof. exact limiter_condition_slip_refuted. Qed.
Print Assumptions C12_limiter_condition_slip_refuted.

Example C12_limiter_premises_satisfiable :
  mk_limiter {| ac_attempts := 5; ac_block_min := 15 |} =
    Some {| rl_ttl := 60000000000; rl_block := 900000000000; rl_max := 5 |} /\
  mk_limiter {| ac_attempts := 1; ac_block_min := 1 |} =
    Some {| rl_ttl := 60000000000; rl_block := 60000000000; rl_max := 1 |} /\
  mk_limiter {| ac_attempts := 0; ac_block_min := 15 |} = None /\
  mk_limiter {| ac_attempts := 5; ac_block_min := 0 |} = None /\
  mk_limiter {| ac_attempts := 5; ac_block_min := 18446744073709551615 |} =
    Some {| rl_ttl := 60000000000; rl_block := -60000000000; rl_max := 5 |}.
Proof. exact limiter_premises_satisfiable. Qed.
Print Assumptions C12_limiter_premises_satisfiable.

(** ** Round 4: the block period at instant resolution

    Instants and durations of the limiter are nanoseconds, as in the code;
    nothing in [C12_block_after_limit] is rounded: it rejects every attempt
    whose check reads an instant strictly before [a_now2 fk + block].  The
    statements below say the same from the other side as well.

    State level: an attempt is rejected exactly when its address has a record
    at or above the limit whose deadline lies strictly after the instant the
    check reads (then nothing but cleanup happens and the time left is the
    exact difference). *)
Theorem C12_blocked_iff : forall (c : rl_conf) (e : att) (s : rl_state),
  evaluated (snd (login c e s)) = false <->
  exists r, s !! a_addr e = Some r /\ (rl_max c <= fa_num r)%N /\ (a_now e < fa_until r)%Z.
Proof. exact blocked_iff. Qed.
Print Assumptions C12_blocked_iff.

Theorem C12_blocked_left : forall (c : rl_conf) (e : att) (s : rl_state) (r : fa),
  s !! a_addr e = Some r -> (rl_max c <= fa_num r)%N -> (a_now e < fa_until r)%Z ->
  login c e s = (rl_cleanup (a_now e) s, L429 (fa_until r - a_now e)).
Proof. exact blocked_left. Qed.
Print Assumptions C12_blocked_left.

(** History level: after a burst as in [C12_block_after_limit] and any
    attempts of other addresses, an attempt of [a] (any password) is rejected
    without evaluation if and only if the instant its check reads is strictly
    before [a_now2 fk + block]: still rejected one nanosecond before the end of
    the block period, evaluated at the end itself and from then on. *)
Theorem C12_block_period_exact :
  forall (c : rl_conf) (a : bytes), (1 <= rl_max c)%N ->
  forall (s0 : rl_state) (t0 : Z) (f1 : att) (F' : list att) (fk : att) (G : list att) (x : att),
    wf_from t0 ((f1 :: F') ++ G ++ [x]) ->
    burst a (N.to_nat (rl_max c)) (f1 :: F') fk ->
    a_addr f1 = a ->
    ~ live (a_now f1) s0 a ->
    Forall (fun e : att => a_addr e = a -> (a_now e <= a_now2 f1 + rl_ttl c)%Z) F' ->
    Forall (fun e : att => a_addr e <> a) G ->
    a_addr x = a ->
    let s := fst (run_logins c s0 ((f1 :: F') ++ G)) in
    evaluated (snd (login c x s)) = false <-> (a_now x < a_now2 fk + rl_block c)%Z.
Proof. exact block_period_exact. Qed.
Print Assumptions C12_block_period_exact.

Theorem C12_block_period_exact_configured :
  forall (cfg : auth_cfg) (a : bytes), (0 < ac_attempts cfg)%Z -> (0 < ac_block_min cfg)%Z ->
  forall (s0 : rl_state) (t0 : Z) (f1 : att) (F' : list att) (fk : att) (G : list att) (x : att),
    wf_from t0 ((f1 :: F') ++ G ++ [x]) ->
    burst a (Z.to_nat (ac_attempts cfg)) (f1 :: F') fk ->
    a_addr f1 = a ->
    ~ live (a_now f1) s0 a ->
    Forall (fun e : att => a_addr e = a -> (a_now e <= a_now2 f1 + minute_ns)%Z) F' ->
    Forall (fun e : att => a_addr e <> a) G ->
    a_addr x = a ->
    let s := fst (run_logins_opt (mk_limiter cfg) s0 ((f1 :: F') ++ G)) in
    evaluated (snd (login_opt (mk_limiter cfg) x s)) = false <-> (a_now x < a_now2 fk + block_dur cfg)%Z.
Proof. exact block_period_exact_configured. Qed.
Print Assumptions C12_block_period_exact_configured.

Example C12_block_exact_premises_satisfiable :
  let o := {| a_now := sec 500; a_now2 := sec 500; a_addr := [120]%N; a_hdr := None; a_trusted := false; a_ok := false |} in
  let x off := edge_att (edge_end + off) true in
  wf_from 0 (edge_burst ++ [o] ++ [x (-1)]) /\ wf_from 0 (edge_burst ++ [o] ++ [x 0]) /\
  burst sliding_addr (N.to_nat (rl_max sliding_conf)) edge_burst (edge_att (sec 2) false) /\
  ~ live (sec 0) ∅ sliding_addr /\
  Forall (fun e => a_addr e = sliding_addr -> (a_now e <= sec 0 + rl_ttl sliding_conf)%Z) (tl edge_burst) /\
  Forall (fun e => a_addr e <> sliding_addr) [o] /\
  (a_now (x (-1)) < sec 2 + rl_block sliding_conf)%Z /\ ~ (a_now (x 0) < sec 2 + rl_block sliding_conf)%Z /\
  snd (run_logins sliding_conf ∅ (edge_burst ++ [o] ++ [x (-1)])) = [L403; L403; L403; L403; L429 1] /\
  snd (run_logins sliding_conf ∅ (edge_burst ++ [o] ++ [x 0])) = [L403; L403; L403; L403; L200].
Proof. exact block_exact_premises_satisfiable. Qed.
Print Assumptions C12_block_exact_premises_satisfiable.

(** handleLogin's blocked test is the duration itself ([blk_code]: [left >
    0]); [login_blk] has the test as a parameter. *)
Theorem C12_blocked_test_is_exact : forall c h s, run_logins_blk blk_code c s h = run_logins c s h.
Proof. exact run_logins_blk_code. Qed.
Print Assumptions C12_blocked_test_is_exact.

(** The test made on the whole seconds that go into the Retry-After header
    ([blk_trunc]: [int(left.Seconds()) > 0]) differs from it exactly during the
    last fractional second of the block ... *)
Theorem C12_truncated_test_differs_iff : forall lft : Z,
  blk_trunc lft <> blk_code lft <-> (0 < lft < second_ns)%Z.
Proof. exact trunc_differs_iff. Qed.
Print Assumptions C12_truncated_test_differs_iff.

(** ... and breaks the property there: limit 3 reached at 2 s, block 900 s
    (ends at 902 s; the premises of [C12_block_after_limit] hold).  The code
    rejects the correct password 1 s, 999 ms, 600 ms and 1 ns before the end
    and evaluates it at the end and 1 ns after; with the truncated test the
    correct password logs in 999 ms, 600 ms and 1 ns before the end, a wrong
    one is one more guess per block period, and a block of 999 ms never
    holds.  Observation, not a violation: inside the last second the code's
    429 carries [Retry-After: 0]. *)
Example C12_truncated_seconds_refuted :
  let x off ok := edge_att (edge_end + off) ok in
  let last l := nth 3 l L403 in
  wf_from 0 (edge_burst ++ [] ++ [x (- ms 600) true]) /\
  burst sliding_addr (N.to_nat (rl_max sliding_conf)) edge_burst (edge_att (sec 2) false) /\
  ~ live (sec 0) ∅ sliding_addr /\
  Forall (fun e => a_addr e = sliding_addr -> (a_now e <= sec 0 + rl_ttl sliding_conf)%Z) (tl edge_burst) /\
  (a_now (x (- ms 600) true) < sec 2 + rl_block sliding_conf)%Z /\
  map (fun off => last (snd (run_logins sliding_conf ∅ (edge_burst ++ [x off true]))))
      [- sec 1; - ms 999; - ms 600; -1; 0; 1] =
    [L429 (sec 1); L429 (ms 999); L429 (ms 600); L429 1; L200; L200] /\
  map (fun off => retry_after (last (snd (run_logins sliding_conf ∅ (edge_burst ++ [x off true])))))
      [- sec 1 - 1; - sec 1; - ms 999; - ms 600; -1; 0] =
    [Some 1; Some 1; Some 0; Some 0; Some 0; None] /\
  map (fun off => last (snd (run_logins_blk blk_trunc sliding_conf ∅ (edge_burst ++ [x off true]))))
      [- sec 1; - ms 999; - ms 600; -1; 0; 1] =
    [L429 (sec 1); L200; L200; L200; L200; L200] /\
  last (snd (run_logins_blk blk_trunc sliding_conf ∅ (edge_burst ++ [x (- ms 600) false]))) = L403 /\
  snd (run_logins_blk blk_trunc {| rl_ttl := sec 60; rl_block := ms 999; rl_max := 1 |} ∅
         [edge_att 0 false; edge_att 1 false; edge_att 2 true]) = [L403; L403; L200] /\
  snd (run_logins {| rl_ttl := sec 60; rl_block := ms 999; rl_max := 1 |} ∅
         [edge_att 0 false; edge_att 1 false; edge_att 2 true]) = [L403; L429 (ms 999 - 1); L429 (ms 999 - 2)].
Proof. exact trunc_seconds_refuted. Qed.
Print Assumptions C12_truncated_seconds_refuted.

(** The Retry-After value of a 429: the time left in whole seconds, rounded
    down; it is 0 exactly when less than a second is left. *)
Theorem C12_retry_after_value : forall lft : Z, (0 < lft)%Z ->
  (0 <= retry_after_secs lft)%Z /\
  (retry_after_secs lft * second_ns <= lft < (retry_after_secs lft + 1) * second_ns)%Z /\
  (retry_after_secs lft = 0 <-> lft < second_ns)%Z.
Proof. exact retry_after_value. Qed.
Print Assumptions C12_retry_after_value.

(** Sessions are kept in whole seconds, the clock rounded down
    ([time.Now().UTC().Unix()]): "the instant is before the expiry" and "the
    truncated clock is below the expiry" are the same test, so the session
    theorems above, stated in seconds, hold at the resolution of instants. *)
Theorem C12_session_clock_truncation_exact : forall ns e : Z,
  (ns / second_ns < e <-> ns < e * second_ns)%Z.
Proof. exact unix_truncation_exact. Qed.
Print Assumptions C12_session_clock_truncation_exact.

(** ** Round 5: concurrent requests (Model/SessionConc.v)

    Requests are threads; each operation is the sequence of atomic steps the
    code has (a lock section over the map without a transaction inside is one
    step; checkSession's section with the refresh store or the expiry delete
    inside is enter / transaction / leave; single bbolt write transactions).
    [ctrans]: some thread takes a step, a request arrives, or the process
    restarts wherever its threads are.  [admissible]: tokens are byte strings,
    a token being issued is new, and a cookie is sent only after the login
    that issued it was answered.  [c_out]: the cookie strings whose
    removeSession has returned. *)
Section Concurrent.
Local Open Scope N_scope.

(** For ALL interleavings of any number of requests of any kind with the
    logout, restarts at any point included: once removeSession has returned
    for the cookie of token [raw] (the logout is answered right after), no
    spelling of that token authenticates, in this process or after a restart,
    in any state reachable from there; and the file does not hold it. *)
Theorem C12_logout_final_concurrent :
  forall (ttl : N) (ok : cstate -> list cop -> Prop),
  (forall st ops, ok st ops -> admissible st ops) ->
  forall d st st' raw,
  (forall r s, d !! r = Some s -> is_bytes r) ->
  creach (code_cfg ttl) ok (cstart d) st ->
  is_bytes raw -> hex_encode raw ∈ c_out st ->
  creach (code_cfg ttl) ok st st' ->
  forall sp', hex_decode_prefix sp' = raw ->
    (forall now, authenticates ttl now sp' (sstate_of st') = false) /\
    (forall now now', authenticates ttl now' sp' (sstate_of (crestart now st')) = false) /\
    c_disk st' !! raw = None.
Proof. exact logout_final_concurrent. Qed.
Print Assumptions C12_logout_final_concurrent.

(** The mirror under concurrency: every record in the file is in memory, or a
    delete of it is on its way (a removeSession between its two halves, an
    expired session being dropped inside checkSession's section). *)
Theorem C12_mirror_concurrent :
  forall (ttl : N) (ok : cstate -> list cop -> Prop),
  (forall st ops, ok st ops -> admissible st ops) ->
  forall d st,
  (forall r s, d !! r = Some s -> is_bytes r) ->
  creach (code_cfg ttl) ok (cstart d) st ->
  forall raw s, c_disk st !! raw = Some s ->
    is_Some (c_mem st !! hex_encode raw) \/ pending_del raw st.
Proof. exact mirror_concurrent. Qed.
Print Assumptions C12_mirror_concurrent.

(** So a restart at any point brings back nothing but what was in memory or
    what a removal that had not been answered yet was about to delete. *)
Theorem C12_restart_resurrects_only_pending :
  forall (ttl : N) (ok : cstate -> list cop -> Prop),
  (forall st ops, ok st ops -> admissible st ops) ->
  forall d st now sp s,
  (forall r s, d !! r = Some s -> is_bytes r) ->
  creach (code_cfg ttl) ok (cstart d) st ->
  c_mem (crestart now st) !! sp = Some s ->
  is_Some (c_mem st !! sp) \/ pending_del (hex_decode_prefix sp) st.
Proof. exact restart_resurrects_only_pending. Qed.
Print Assumptions C12_restart_resurrects_only_pending.

(** At most one request is inside a section that contains a transaction. *)
Theorem C12_sections_exclusive :
  forall (ttl : N) (ok : cstate -> list cop -> Prop),
  (forall st ops, ok st ops -> admissible st ops) ->
  forall d st j1 j2 t1 t2,
  (forall r s, d !! r = Some s -> is_bytes r) ->
  creach (code_cfg ttl) ok (cstart d) st ->
  c_thr st !! j1 = Some t1 -> c_thr st !! j2 = Some t2 -> holding t1 -> holding t2 -> j1 = j2.
Proof. exact sections_exclusive. Qed.
Print Assumptions C12_sections_exclusive.

(** Run alone, a request does what the sequential model (the theorems above)
    says: checkSession, removeSession, addSession, GET /control/logout. *)
Theorem C12_sequential_agrees : forall ttl s,
  (forall now sp, sstate_of (alone ttl [OCheck now sp] s) = fst (check_session ttl now sp s) /\
                  (exists t, c_thr (alone ttl [OCheck now sp] s) = [t] /\
                             t_res t = [snd (check_session ttl now sp s)] /\ finished t = true)) /\
  (forall sp, sstate_of (alone ttl [ORemove sp] s) = logout sp s) /\
  (forall now raw u, sstate_of (alone ttl [OAdd now raw u] s) = new_session ttl now raw u s) /\
  (forall now sp, sstate_of (alone ttl [ORead 0; OCheck now sp; ORemove sp] s) = fst (logout_request ttl now sp s)).
Proof. exact sequential_agrees. Qed.
Print Assumptions C12_sequential_agrees.

(** Non-vacuity: a day-old session; the request enters its section first, is
    served and stores the refreshed expiry while the logout waits for the
    lock; then the logout runs and is answered. *)
Example C12_concurrent_premises_satisfiable :
  exists st,
    exec (code_cfg ex_ttl) ex_sched_code (cstart ex_d) = Some st /\
    creach (code_cfg ex_ttl) admissible (cstart ex_d) st /\
    is_bytes ex_tok /\ hex_encode ex_tok ∈ c_out st /\
    (exists t, c_thr st !! 1%nat = Some t /\ t_res t = [CSOK]) /\
    (exists st1, exec (code_cfg ex_ttl) (firstn 4 ex_sched_code) (cstart ex_d) = Some st1 /\
                 c_lock st1 = Some 1%nat /\ cstep (code_cfg ex_ttl) 0 st1 = None) /\
    authenticates ex_ttl ex_now ex_sp (sstate_of (cstart ex_d)) = true.
Proof. exact logout_final_premises_satisfiable. Qed.
Print Assumptions C12_concurrent_premises_satisfiable.

(** The order of removeSession's halves is needed (seeded change C12-I): file
    first, then memory.  Schedule: the logout deletes the record; a request
    with the same day-old session enters its section, refreshes the expiry,
    stores the record, leaves; the logout deletes the map entry and is
    answered.  Dead in this process, alive after a restart.  On the code's
    order the request is refused and nothing comes back. *)
Example C12_logout_file_first_refuted :
  exists st,
    exec (file_first_cfg ex_ttl)
         [ASpawn [ORemove ex_sp]; ASpawn [ORead 0; OCheck ex_now ex_sp];
          AStep 0; AStep 1; AStep 1; AStep 1; AStep 1; AStep 0] (cstart ex_d) = Some st /\
    hex_encode ex_tok ∈ c_out st /\
    finished <$> c_thr st = [true; true] /\
    authenticates ex_ttl (ex_now + 10) ex_sp (sstate_of st) = false /\
    authenticates ex_ttl (ex_now + 10) ex_sp (sstate_of (crestart (ex_now + 5) st)) = true /\
    (exists st', exec (code_cfg ex_ttl) [ASpawn ex_L; ASpawn ex_R; AStep 0; AStep 1; AStep 1; AStep 0] (cstart ex_d) = Some st' /\
                 authenticates ex_ttl (ex_now + 10) ex_sp (sstate_of (crestart (ex_now + 5) st')) = false).
Proof. exact logout_file_first_refuted. Qed.
Print Assumptions C12_logout_file_first_refuted.

(** The same through GET /control/logout (whose own checkSession would do the
    refresh): the two requests read the clock on either side of a day boundary
    of now + ttl. *)
Example C12_logout_file_first_http_refuted :
  let d : gmap bytes sess := {[ ex_tok := ex_young ]} in
  let Lg := [ORead 0; OCheck 86399 ex_sp; ORemove ex_sp] in
  let R := [ORead 0; OCheck 86400 ex_sp] in
  exists st,
    exec (file_first_cfg ex_ttl)
         [ASpawn Lg; ASpawn R; AStep 0; AStep 0; AStep 0; AStep 1; AStep 1; AStep 1; AStep 1; AStep 0] (cstart d) = Some st /\
    hex_encode ex_tok ∈ c_out st /\
    authenticates ex_ttl 86500 ex_sp (sstate_of (crestart 86450 st)) = true.
Proof. exact logout_file_first_http_refuted. Qed.
Print Assumptions C12_logout_file_first_http_refuted.

(** The place of the refresh store is needed: stored after the section is
    left, a logout can run between lookup and store, and the store brings the
    record back.  On the code the logout's first step is not enabled while the
    request is inside its section. *)
Example C12_refresh_store_unlocked_refuted :
  exists st,
    exec (store_unlocked_cfg ex_ttl)
         [ASpawn ex_L; ASpawn ex_R; AStep 1; AStep 1; AStep 0; AStep 0; AStep 1] (cstart ex_d) = Some st /\
    hex_encode ex_tok ∈ c_out st /\
    finished <$> c_thr st = [true; true] /\
    authenticates ex_ttl (ex_now + 10) ex_sp (sstate_of st) = false /\
    authenticates ex_ttl (ex_now + 10) ex_sp (sstate_of (crestart (ex_now + 5) st)) = true /\
    (exists st1, exec (code_cfg ex_ttl) [ASpawn ex_L; ASpawn ex_R; AStep 1; AStep 1] (cstart ex_d) = Some st1 /\
                 cstep (code_cfg ex_ttl) 0 st1 = None).
Proof. exact refresh_store_unlocked_refuted. Qed.
Print Assumptions C12_refresh_store_unlocked_refuted.
End Concurrent.

(** ** Round 7: simultaneous logins (Model/LoginConc.v)

    handleLogin asks the limiter before the password is evaluated and counts
    the failure afterwards, in two separate critical sections; [ensure] holds
    the control lock around the handler for POST.  A login is a thread of
    three steps (check, evaluate, count); [lrun true] is the code (lock
    taken), [lrun false] the variant without it (seeded change C12-M). *)

(** With the control lock, for EVERY interleaving of any number of login
    requests: once all are answered, the limiter's table and every answer are
    those of handleLogin run sequentially over the attempts in the order the
    log gives, and every request is in that log with the answer it got.  So
    the throttling theorems above, which are about sequential histories
    ([C12_block_after_limit], [_configured], [C12_block_period_exact], ...),
    hold for concurrent attempts: in particular no more than the limit of
    passwords of one address are evaluated in a burst, however many attempts
    are in flight at once. *)
Theorem C12_throttling_holds_under_concurrency :
  forall (c : rl_conf) (s0 : rl_state) (atts : list att) (sched : list nat) (st : lstate),
  lrun true c sched (linit s0 atts) = Some st ->
  Forall (fun p => ldone p = true) (l_thr st) ->
  run_logins c s0 (log_atts (l_log st)) = (l_tab st, log_outs (l_log st)) /\
  (forall j e o, l_thr st !! j = Some (e, LDone o) -> (j, e, o) ∈ l_log st).
Proof. exact logins_serialised. Qed.
Print Assumptions C12_throttling_holds_under_concurrency.

(** While a request is between the limiter's check and its count, no other
    request passes the check. *)
Theorem C12_login_sections_exclusive :
  forall (c : rl_conf) (s0 : rl_state) (atts : list att) (sched : list nat) (st : lstate) (i j : nat) (e : att),
  lrun true c sched (linit s0 atts) = Some st ->
  l_ctl st = Some i -> l_thr st !! j = Some (e, LStart) -> lstep true c j st = None.
Proof. exact login_sections_exclusive. Qed.
Print Assumptions C12_login_sections_exclusive.

(** The counting form, kept visible: it follows from the theorem above and a
    counting lemma over sequential histories that is not proved here (the
    sequential theorems speak about the attempt after a burst, not about a
    count); shown on the instance below. *)
Definition C12_concurrent_evaluations_bounded_statement : Prop :=
  forall (c : rl_conf) (a : bytes) (k : nat) (sched : list nat) (st : lstate),
  (1 <= rl_max c)%N -> (rl_ttl c <= rl_block c)%Z ->
  lrun true c sched (linit ∅ (repeat {| a_now := 0; a_now2 := 0; a_addr := a; a_hdr := None; a_trusted := false; a_ok := false |} k)) = Some st ->
  (levaluated st <= N.to_nat (rl_max c))%nat.

(** Without the lock (seeded change C12-M): limit 3, four wrong passwords from
    one address, all four pass the check before the first failure is counted:
    four passwords evaluated, four times 403.  With the lock that schedule does
    not exist (the second request cannot move); the complete schedule
    evaluates three, and its answers are the sequential ones. *)
Example C12_logins_unserialised_refuted :
  (exists st, lrun false ex_conf ex_burst_sched (linit ∅ (repeat ex_att 4)) = Some st /\
              map lout (l_thr st) = [Some L403; Some L403; Some L403; Some L403] /\ levaluated st = 4%nat) /\
  lrun true ex_conf ex_burst_sched (linit ∅ (repeat ex_att 4)) = None /\
  (exists st, lrun true ex_conf ex_seq_sched (linit ∅ (repeat ex_att 4)) = Some st /\
              Forall (fun p => ldone p = true) (l_thr st) /\ levaluated st = 3%nat /\
              snd (run_logins ex_conf ∅ (repeat ex_att 4)) = log_outs (l_log st)).
Proof. exact unserialised_refuted. Qed.
Print Assumptions C12_logins_unserialised_refuted.

(** ** Round 8: the limiter over the life of the installation (Model/LimiterLife.v)

    [InitAuth] keeps the limiter whatever user list it is given; a fresh
    installation creates the Auth object without users and the wizard adds the
    first account to the same object.  [limiter_life] follows the limiter of
    the running process along C11's life histories (boot from no file / from a
    file, wizard with every outcome, write, stop). *)
Theorem C12_limiter_present_whenever_account_exists :
  forall (ul : list account -> list account) (k : boot_code) (cfg : auth_cfg) (st0 : life) (ops : list op) (p : proc),
  l_proc st0 = None ->
  l_proc (fst (limiter_life ul k true cfg st0 ops)) = Some p ->
  proc_auth_present p = true ->
  snd (limiter_life ul k true cfg st0 ops) = mk_limiter cfg /\
  ((0 < ac_attempts cfg)%Z -> (0 < ac_block_min cfg)%Z ->
   exists c, snd (limiter_life ul k true cfg st0 ops) = Some c /\
             rl_max c = Z.to_N (ac_attempts cfg) /\ rl_ttl c = minute_ns /\ rl_block c = block_dur cfg).
Proof. exact limiter_present_whenever_account_exists. Qed.
Print Assumptions C12_limiter_present_whenever_account_exists.

(** The installation [limiter_life] walks through is C11's [run_ops]. *)
Theorem C12_limiter_life_is_auth_life :
  forall ul k cfg st ops lim keep,
  fst (fold_left (lim_step ul k keep cfg) ops (st, lim)) = run_ops ul k st ops.
Proof. exact limiter_life_fst. Qed.
Print Assumptions C12_limiter_life_is_auth_life.

(** Seeded change C12-O: an object created without users gets no limiter.
    First start, wizard: an account exists, no limiter, four wrong passwords
    all evaluated with auth_attempts 3; on the code the fourth is a 429. *)
Example C12_no_limiter_when_started_empty_refuted :
  let sl := limiter_life users_list ok_code false ex_cfg life0 ex_fresh in
  let sl' := limiter_life users_list ok_code true ex_cfg life0 ex_fresh in
  (exists p, l_proc (fst sl) = Some p /\ proc_users p = [ex_admin]) /\
  snd sl = None /\
  snd (run_logins_opt (snd sl) ∅ ex_guesses) = [L403; L403; L403; L403] /\
  fst sl' = fst sl /\ snd sl' = mk_limiter ex_cfg /\
  (exists lft, snd (run_logins_opt (snd sl') ∅ ex_guesses) = [L403; L403; L403; L429 lft]).
Proof. exact no_limiter_when_started_empty_refuted. Qed.
Print Assumptions C12_no_limiter_when_started_empty_refuted.

(** C20: query-log files are read backwards completely; timestamp seeks land
    on the entry.  Only statements here; proofs live in Proofs/QLogFile.v. *)
From Coq Require Import ZArith List.
From AGH Require Import Model.QLogFile Proofs.QLogFile Proofs.QLogFileAbsent.
Import ListNotations.
Local Open Scope Z_scope.

(** For every entry limit [me] and window size [buf] with 0 < me <= buf, and
    every newline-terminated file whose lines are non-empty and shorter than
    [me]: SeekStart followed by ReadNext until EOF returns exactly the lines
    (start, length) in reverse order, each once, and then EOF -- wherever the
    read windows fall and whatever window state was left behind. *)
Theorem C20_reverse_complete : forall me buf (f : qfile) (s0 : rstate),
  0 < me <= buf -> lines_ok me f ->
  read_all me buf f (S (length f)) (seek_start f s0) = (rev (spans f 0), true).
Proof. exact reverse_complete. Qed.
Print Assumptions C20_reverse_complete.

(** The constants of the Go code satisfy the hypothesis on the parameters. *)
Theorem C20_go_constants : 0 < max_entry_size <= buffer_size.
Proof. exact go_consts_ok. Qed.
Print Assumptions C20_go_constants.

(** [spans] is what one expects: the k-th entry is line k with its byte offset. *)
Theorem C20_spans_nth : forall (f : qfile) o k l t,
  nth_error f k = Some (l, t) ->
  nth_error (spans f o) k = Some (o + fsize (firstn k f), l).
Proof. exact spans_nth. Qed.
Print Assumptions C20_spans_nth.

(** Seek soundness, for EVERY file (sorted or not, any line lengths): a
    position returned by seekTS is the end of a line carrying exactly the
    wanted stamp; the depth is below 100. *)
Theorem C20_seek_found_sound : forall me (f : qfile) ts p d,
  seek_ts me f ts = Found p d ->
  exists k s l, is_line f k s l ts /\ p = s + l /\ 0 <= d < 100.
Proof. exact seek_found_sound. Qed.
Print Assumptions C20_seek_found_sound.

(** ... and the next read returns exactly that line. *)
Theorem C20_seek_then_read : forall me buf (f : qfile) ts s p d,
  0 < me <= buf -> lines_ok me f ->
  seek_ts_state me f ts s = (Found p d, {| pos := p; buf_start := buf_start s; buf_valid := false |}) ->
  exists k st l s',
    is_line f k st l ts /\
    read_next me buf f {| pos := p; buf_start := buf_start s; buf_valid := false |} = (Some (st, l), s').
Proof. exact seek_then_read. Qed.
Print Assumptions C20_seek_then_read.

(** A seek that does not find the stamp leaves the read position untouched. *)
Theorem C20_seek_failed_keeps_position : forall me (f : qfile) ts s,
  (forall p d, seek_ts me f ts <> Found p d) ->
  pos (snd (seek_ts_state me f ts s)) = pos s.
Proof. exact seek_absent_keeps_position. Qed.
Print Assumptions C20_seek_failed_keeps_position.

(** Two (or more) files behind a qLogReader, reading part of C20_two_files:
    from SeekStart, ReadNext until EOF returns every line of every file as
    (file index, start, length): newest file first, each file backwards, each
    line once. *)
Theorem C20_two_files_read : forall me buf (fs : list qfile),
  0 < me <= buf -> Forall (lines_ok me) fs ->
  reader_read_all me buf (S (total_len fs)) (reader_seek_start (new_reader fs)) = all_rev fs.
Proof. exact reader_reverse_complete. Qed.
Print Assumptions C20_two_files_read.

(** C20_seek_present: in a file under 2^63 bytes whose lines are shorter than
    [me], with strictly increasing non-zero stamps, seeking the stamp of line
    [t] returns the position of that line (its terminating newline), within
    the 100 probes the code allows. *)
Theorem C20_seek_present : forall me (f : qfile) t l ts,
  0 < me -> lines_ok me f -> stamps_nonzero f -> sorted_ts f -> size_ok f ->
  nth_error f t = Some (l, ts) ->
  exists d, seek_ts me f ts = Found (St f t + l) d.
Proof. exact seek_present. Qed.
Print Assumptions C20_seek_present.

(** C20_seek_absent, the two outer classes: a stamp newer than every line is
    reported too-late, one older than every line too-early (never a position,
    never the depth limit).  The third class (a stamp between two neighbouring
    lines) is C20_seek_absent_between below; C20_seek_absent states all three
    by the rank of the stamp. *)
Theorem C20_seek_too_late : forall me (f : qfile) ts,
  0 < me -> lines_ok me f -> stamps_nonzero f -> size_ok f -> f <> [] ->
  (forall k l t, nth_error f k = Some (l, t) -> t < ts) ->
  seek_ts me f ts = TooLate.
Proof. exact seek_too_late. Qed.
Print Assumptions C20_seek_too_late.

Theorem C20_seek_too_early : forall me (f : qfile) ts,
  0 < me -> lines_ok me f -> stamps_nonzero f -> size_ok f -> f <> [] ->
  (forall k l t, nth_error f k = Some (l, t) -> ts < t) ->
  seek_ts me f ts = TooEarly.
Proof. exact seek_too_early. Qed.
Print Assumptions C20_seek_too_early.

(** C20_two_files, seek part.  Files oldest first, each non-empty, under 2^63
    bytes, lines shorter than [me], non-zero stamps ([file_ok]).  Seeking a
    stamp present in file [i] (sorted; every newer file lies wholly after the
    stamp) succeeds after passing over the newer files; after the skip of the
    found line, reading on returns the older lines of that file and then the
    older files, newest first. *)
Theorem C20_two_files_seek_present : forall me buf (fs : list qfile) i f t l ts,
  0 < me <= buf -> Forall (file_ok me) fs ->
  nth_error fs i = Some f -> sorted_ts f -> nth_error f t = Some (l, ts) ->
  (forall j f', (i < j)%nat -> nth_error fs j = Some f' -> all_newer ts f') ->
  exists r' r'' x, reader_seek_ts me ts (new_reader fs) = (RFound, r') /\
    reader_read_next me buf r' = (Some x, r'') /\
    forall fuel, (length (tagged i (firstn t f) ++ all_rev_upto i fs) < fuel)%nat ->
      reader_read_all me buf fuel r'' = tagged i (firstn t f) ++ all_rev_upto i fs.
Proof. exact reader_seek_present. Qed.
Print Assumptions C20_two_files_seek_present.

(** A stamp newer than everything in the newest file (e.g. between the files
    and the memory buffer): the reader falls back to the newest end and then
    reads everything. *)
Theorem C20_two_files_seek_newer : forall me buf (fs : list qfile) n f ts,
  0 < me <= buf -> Forall (file_ok me) fs -> length fs = S n ->
  nth_error fs n = Some f -> all_older ts f ->
  exists r', reader_seek_ts me ts (new_reader fs) = (RFellBack, r') /\
    forall fuel, (length (all_rev fs) < fuel)%nat -> reader_read_all me buf fuel r' = all_rev fs.
Proof. exact reader_seek_newer. Qed.
Print Assumptions C20_two_files_seek_newer.

(** C20_seek_absent, the inner class: a stamp strictly between the stamps of
    two neighbouring lines is reported not-found -- never too-early, too-late,
    a position or the depth limit (interval invariant of the binary search:
    both edges are line starts around the boundary between the neighbours, the
    scope halves; once it is empty the newer neighbour is probed twice, which
    is the not-found exit because that line does not start at offset 0). *)
Theorem C20_seek_absent_between : forall me (f : qfile) t l1 t1 l2 t2 ts,
  0 < me -> lines_ok me f -> stamps_nonzero f -> sorted_ts f -> size_ok f ->
  nth_error f t = Some (l1, t1) -> nth_error f (S t) = Some (l2, t2) -> t1 < ts < t2 ->
  seek_ts me f ts = NotFound.
Proof. exact seek_absent_between. Qed.
Print Assumptions C20_seek_absent_between.

(** C20_seek_absent: every absent stamp, by its rank [r] = number of older
    lines: too-early (r = 0), too-late (r = all), not-found (otherwise). *)
Theorem C20_seek_absent : forall me (f : qfile) ts r,
  0 < me -> lines_ok me f -> stamps_nonzero f -> sorted_ts f -> size_ok f -> f <> [] ->
  (r <= length f)%nat ->
  (forall k l t, nth_error f k = Some (l, t) -> (k < r)%nat -> t < ts) ->
  (forall k l t, nth_error f k = Some (l, t) -> (r <= k)%nat -> ts < t) ->
  seek_ts me f ts = if Nat.eqb r 0 then TooEarly else if Nat.eqb r (length f) then TooLate else NotFound.
Proof. exact seek_absent. Qed.
Print Assumptions C20_seek_absent.

Example C20_seek_absent_example :
  let f := [(5, 11); (7, 13); (3, 15); (6, 17)] in
  lines_ok 8 f /\ stamps_nonzero f /\ size_ok f /\
  seek_ts 8 f 12 = NotFound /\ seek_ts 8 f 14 = NotFound /\ seek_ts 8 f 16 = NotFound /\
  seek_ts 8 f 10 = TooEarly /\ seek_ts 8 f 18 = TooLate.
Proof. exact seek_absent_example. Qed.
Print Assumptions C20_seek_absent_example.

(** C20_two_files, not-found part.  The stamp lies strictly between two
    neighbouring lines of file [i]; every newer file lies wholly after it.
    Then qLogReader.seekTS reports not-found, whatever the older files hold:
    it does not fall back to the newest end (no silent rewind:
    [r_fellback] stays false), no file's read position has moved ([poss]),
    the current file is unchanged. *)
Theorem C20_two_files_seek_absent : forall me (fs : list qfile) i f t l1 t1 l2 t2 ts,
  0 < me -> Forall (file_ok me) fs ->
  nth_error fs i = Some f -> sorted_ts f ->
  nth_error f t = Some (l1, t1) -> nth_error f (S t) = Some (l2, t2) -> t1 < ts < t2 ->
  (forall j f', (i < j)%nat -> nth_error fs j = Some f' -> all_newer ts f') ->
  exists r', reader_seek_ts me ts (new_reader fs) = (RNotFound, r') /\
    r_fellback r' = false /\ r_cur r' = r_cur (new_reader fs) /\
    poss r' = poss (new_reader fs) /\ files r' = fs.
Proof. exact reader_seek_absent. Qed.
Print Assumptions C20_two_files_seek_absent.

(** Any reader-level seek that ends in an error moved no read position. *)
Theorem C20_reader_failed_seek_keeps_positions : forall me ts n r res r',
  reader_seek_loop me n ts r = (res, r') -> res = RNotFound \/ res = ROther ->
  poss r' = poss r /\ r_cur r' = r_cur r /\ r_fellback r' = r_fellback r /\ files r' = files r.
Proof. exact reader_seek_loop_failed. Qed.
Print Assumptions C20_reader_failed_seek_keeps_positions.

Example C20_two_files_seek_absent_example :
  let old := [(5, 1); (4, 2)] in
  let cur := [(5, 11); (7, 13); (3, 15)] in
  Forall (file_ok 8) [old; cur] /\
  fst (reader_seek_ts 8 12 (new_reader [old; cur])) = RNotFound /\
  fst (reader_seek_ts 8 14 (new_reader [old; cur])) = RNotFound /\
  fst (reader_seek_ts 8 5 (new_reader [old; cur])) = RFellBack /\
  fst (reader_seek_ts 8 13 (new_reader [old; cur])) = RFound.
Proof. exact reader_absent_example. Qed.
Print Assumptions C20_two_files_seek_absent_example.

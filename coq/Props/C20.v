(** C20: query-log files are read backwards completely; timestamp seeks land
    on the entry.  Only statements here; proofs live in Proofs/QLogFile.v. *)
From Coq Require Import ZArith List.
From AGH Require Import Model.QLogFile Proofs.QLogFile.
Import ListNotations.
Local Open Scope Z_scope.

(** For every entry limit [me] and window size [buf] with 0 < me <= buf, and
    every newline-terminated file whose lines are non-empty and shorter than
    [me]: SeekStart followed by ReadNext until EOF returns exactly the lines
    (start, length) in reverse order, each once, and then EOF -- wherever the
    read windows fall and whatever window state was left behind. *)
Theorem C20_reverse_complete : forall me buf (f : qfile) (s0 : rstate),
  0 < me <= buf -> lines_ok me f ->
  read_all me buf f (S (length f)) (seek_start f s0) = (rev (spans f 0), true).
Proof. exact reverse_complete. Qed.
Print Assumptions C20_reverse_complete.

(** The constants of the Go code satisfy the hypothesis on the parameters. *)
Theorem C20_go_constants : 0 < max_entry_size <= buffer_size.
Proof. exact go_consts_ok. Qed.
Print Assumptions C20_go_constants.

(** [spans] is what one expects: the k-th entry is line k with its byte offset. *)
Theorem C20_spans_nth : forall (f : qfile) o k l t,
  nth_error f k = Some (l, t) ->
  nth_error (spans f o) k = Some (o + fsize (firstn k f), l).
Proof. exact spans_nth. Qed.
Print Assumptions C20_spans_nth.

(** Seek soundness, for EVERY file (sorted or not, any line lengths): a
    position returned by seekTS is the end of a line carrying exactly the
    wanted stamp; the depth is below 100. *)
Theorem C20_seek_found_sound : forall me (f : qfile) ts p d,
  seek_ts me f ts = Found p d ->
  exists k s l, is_line f k s l ts /\ p = s + l /\ 0 <= d < 100.
Proof. exact seek_found_sound. Qed.
Print Assumptions C20_seek_found_sound.

(** ... and the next read returns exactly that line. *)
Theorem C20_seek_then_read : forall me buf (f : qfile) ts s p d,
  0 < me <= buf -> lines_ok me f ->
  seek_ts_state me f ts s = (Found p d, {| pos := p; buf_start := buf_start s; buf_valid := false |}) ->
  exists k st l s',
    is_line f k st l ts /\
    read_next me buf f {| pos := p; buf_start := buf_start s; buf_valid := false |} = (Some (st, l), s').
Proof. exact seek_then_read. Qed.
Print Assumptions C20_seek_then_read.

(** A seek that does not find the stamp leaves the read position untouched. *)
Theorem C20_seek_failed_keeps_position : forall me (f : qfile) ts s,
  (forall p d, seek_ts me f ts <> Found p d) ->
  pos (snd (seek_ts_state me f ts s)) = pos s.
Proof. exact seek_absent_keeps_position. Qed.
Print Assumptions C20_seek_failed_keeps_position.

(** Two (or more) files behind a qLogReader, reading part of C20_two_files:
    from SeekStart, ReadNext until EOF returns every line of every file as
    (file index, start, length): newest file first, each file backwards, each
    line once. *)
Theorem C20_two_files_read : forall me buf (fs : list qfile),
  0 < me <= buf -> Forall (lines_ok me) fs ->
  reader_read_all me buf (S (total_len fs)) (reader_seek_start (new_reader fs)) = all_rev fs.
Proof. exact reader_reverse_complete. Qed.
Print Assumptions C20_two_files_read.

(** C20_seek_present: in a file under 2^63 bytes whose lines are shorter than
    [me], with strictly increasing non-zero stamps, seeking the stamp of line
    [t] returns the position of that line (its terminating newline), within
    the 100 probes the code allows. *)
Theorem C20_seek_present : forall me (f : qfile) t l ts,
  0 < me -> lines_ok me f -> stamps_nonzero f -> sorted_ts f -> size_ok f ->
  nth_error f t = Some (l, ts) ->
  exists d, seek_ts me f ts = Found (St f t + l) d.
Proof. exact seek_present. Qed.
Print Assumptions C20_seek_present.

(** C20_seek_absent, the two outer classes: a stamp newer than every line is
    reported too-late, one older than every line too-early (never a position,
    never the depth limit).  [PARTIAL: the not-found class for a stamp between
    two neighbouring lines is validated by the correspondence, not proved.] *)
Theorem C20_seek_too_late : forall me (f : qfile) ts,
  0 < me -> lines_ok me f -> stamps_nonzero f -> size_ok f -> f <> [] ->
  (forall k l t, nth_error f k = Some (l, t) -> t < ts) ->
  seek_ts me f ts = TooLate.
Proof. exact seek_too_late. Qed.
Print Assumptions C20_seek_too_late.

Theorem C20_seek_too_early : forall me (f : qfile) ts,
  0 < me -> lines_ok me f -> stamps_nonzero f -> size_ok f -> f <> [] ->
  (forall k l t, nth_error f k = Some (l, t) -> ts < t) ->
  seek_ts me f ts = TooEarly.
Proof. exact seek_too_early. Qed.
Print Assumptions C20_seek_too_early.

(** C20_two_files, seek part.  Files oldest first, each non-empty, under 2^63
    bytes, lines shorter than [me], non-zero stamps ([file_ok]).  Seeking a
    stamp present in file [i] (sorted; every newer file lies wholly after the
    stamp) succeeds after passing over the newer files; after the skip of the
    found line, reading on returns the older lines of that file and then the
    older files, newest first. *)
Theorem C20_two_files_seek_present : forall me buf (fs : list qfile) i f t l ts,
  0 < me <= buf -> Forall (file_ok me) fs ->
  nth_error fs i = Some f -> sorted_ts f -> nth_error f t = Some (l, ts) ->
  (forall j f', (i < j)%nat -> nth_error fs j = Some f' -> all_newer ts f') ->
  exists r' r'' x, reader_seek_ts me ts (new_reader fs) = (RFound, r') /\
    reader_read_next me buf r' = (Some x, r'') /\
    forall fuel, (length (tagged i (firstn t f) ++ all_rev_upto i fs) < fuel)%nat ->
      reader_read_all me buf fuel r'' = tagged i (firstn t f) ++ all_rev_upto i fs.
Proof. exact reader_seek_present. Qed.
Print Assumptions C20_two_files_seek_present.

(** A stamp newer than everything in the newest file (e.g. between the files
    and the memory buffer): the reader falls back to the newest end and then
    reads everything. *)
Theorem C20_two_files_seek_newer : forall me buf (fs : list qfile) n f ts,
  0 < me <= buf -> Forall (file_ok me) fs -> length fs = S n ->
  nth_error fs n = Some f -> all_older ts f ->
  exists r', reader_seek_ts me ts (new_reader fs) = (RFellBack, r') /\
    forall fuel, (length (all_rev fs) < fuel)%nat -> reader_read_all me buf fuel r' = all_rev fs.
Proof. exact reader_seek_newer. Qed.
Print Assumptions C20_two_files_seek_newer.

(** C20: query-log files are read backwards completely; timestamp seeks land
    on the entry.  Only statements here; proofs live in Proofs/QLogFile.v. *)
From Coq Require Import ZArith List String.
From AGH Require Import Base.Run Model.QLogFile Model.QLogCodec Model.QLogBytes
  Proofs.QLogFile Proofs.QLogFileAbsent Proofs.QLogHistory Proofs.QLogCodec Proofs.QLogCodecLoc Proofs.QLogBytes Proofs.QLogStamp
  Model.QLog Model.QLogDisk Proofs.QLogDisk.
From AGH Require Import Model.QLogCmp Proofs.QLogCmp.
Import ListNotations.
Local Open Scope Z_scope.

(** For every entry limit [me] and window size [buf] with 0 < me <= buf, and
    every newline-terminated file whose lines are non-empty and shorter than
    [me]: SeekStart followed by ReadNext until EOF returns exactly the lines
    (start, length) in reverse order, each once, and then EOF -- wherever the
    read windows fall and whatever window state was left behind. *)
Theorem C20_reverse_complete : forall me buf (f : qfile) (s0 : rstate),
  0 < me <= buf -> lines_ok me f ->
  read_all me buf f (S (length f)) (seek_start f s0) = (rev (spans f 0), true).
Proof. exact reverse_complete. Qed.
Print Assumptions C20_reverse_complete.

(** The constants of the Go code satisfy the hypothesis on the parameters. *)
Theorem C20_go_constants : 0 < max_entry_size <= buffer_size.
Proof. exact go_consts_ok. Qed.
Print Assumptions C20_go_constants.

(** [spans] is what one expects: the k-th entry is line k with its byte offset. *)
Theorem C20_spans_nth : forall (f : qfile) o k l t,
  nth_error f k = Some (l, t) ->
  nth_error (spans f o) k = Some (o + fsize (firstn k f), l).
Proof. exact spans_nth. Qed.
Print Assumptions C20_spans_nth.

(** Seek soundness, for EVERY file (sorted or not, any line lengths): a
    position returned by seekTS is the end of a line carrying exactly the
    wanted stamp; the depth is below 100. *)
Theorem C20_seek_found_sound : forall me (f : qfile) ts p d,
  seek_ts me f ts = Found p d ->
  exists k s l, is_line f k s l ts /\ p = s + l /\ 0 <= d < 100.
Proof. exact seek_found_sound. Qed.
Print Assumptions C20_seek_found_sound.

(** ... and the next read returns exactly that line. *)
Theorem C20_seek_then_read : forall me buf (f : qfile) ts s p d,
  0 < me <= buf -> lines_ok me f ->
  seek_ts_state me f ts s = (Found p d, {| pos := p; buf_start := buf_start s; buf_valid := false |}) ->
  exists k st l s',
    is_line f k st l ts /\
    read_next me buf f {| pos := p; buf_start := buf_start s; buf_valid := false |} = (Some (st, l), s').
Proof. exact seek_then_read. Qed.
Print Assumptions C20_seek_then_read.

(** A seek that does not find the stamp leaves the read position untouched. *)
Theorem C20_seek_failed_keeps_position : forall me (f : qfile) ts s,
  (forall p d, seek_ts me f ts <> Found p d) ->
  pos (snd (seek_ts_state me f ts s)) = pos s.
Proof. exact seek_absent_keeps_position. Qed.
Print Assumptions C20_seek_failed_keeps_position.

(** Two (or more) files behind a qLogReader, reading part of C20_two_files:
    from SeekStart, ReadNext until EOF returns every line of every file as
    (file index, start, length): newest file first, each file backwards, each
    line once. *)
Theorem C20_two_files_read : forall me buf (fs : list qfile),
  0 < me <= buf -> Forall (lines_ok me) fs ->
  reader_read_all me buf (S (total_len fs)) (reader_seek_start (new_reader fs)) = all_rev fs.
Proof. exact reader_reverse_complete. Qed.
Print Assumptions C20_two_files_read.

(** C20_seek_present: in a file under 2^63 bytes whose lines are shorter than
    [me], with strictly increasing non-zero stamps, seeking the stamp of line
    [t] returns the position of that line (its terminating newline), within
    the 100 probes the code allows. *)
Theorem C20_seek_present : forall me (f : qfile) t l ts,
  0 < me -> lines_ok me f -> stamps_nonzero f -> sorted_ts f -> size_ok f ->
  nth_error f t = Some (l, ts) ->
  exists d, seek_ts me f ts = Found (St f t + l) d.
Proof. exact seek_present. Qed.
Print Assumptions C20_seek_present.

(** C20_seek_absent, the two outer classes: a stamp newer than every line is
    reported too-late, one older than every line too-early (never a position,
    never the depth limit).  The third class (a stamp between two neighbouring
    lines) is C20_seek_absent_between below; C20_seek_absent states all three
    by the rank of the stamp. *)
Theorem C20_seek_too_late : forall me (f : qfile) ts,
  0 < me -> lines_ok me f -> stamps_nonzero f -> size_ok f -> f <> [] ->
  (forall k l t, nth_error f k = Some (l, t) -> t < ts) ->
  seek_ts me f ts = TooLate.
Proof. exact seek_too_late. Qed.
Print Assumptions C20_seek_too_late.

Theorem C20_seek_too_early : forall me (f : qfile) ts,
  0 < me -> lines_ok me f -> stamps_nonzero f -> size_ok f -> f <> [] ->
  (forall k l t, nth_error f k = Some (l, t) -> ts < t) ->
  seek_ts me f ts = TooEarly.
Proof. exact seek_too_early. Qed.
Print Assumptions C20_seek_too_early.

(** C20_two_files, seek part.  Files oldest first, each non-empty, under 2^63
    bytes, lines shorter than [me], non-zero stamps ([file_ok]).  Seeking a
    stamp present in file [i] (sorted; every newer file lies wholly after the
    stamp) succeeds after passing over the newer files; after the skip of the
    found line, reading on returns the older lines of that file and then the
    older files, newest first. *)
Theorem C20_two_files_seek_present : forall me buf (fs : list qfile) i f t l ts,
  0 < me <= buf -> Forall (file_ok me) fs ->
  nth_error fs i = Some f -> sorted_ts f -> nth_error f t = Some (l, ts) ->
  (forall j f', (i < j)%nat -> nth_error fs j = Some f' -> all_newer ts f') ->
  exists r' r'' x, reader_seek_ts me ts (new_reader fs) = (RFound, r') /\
    reader_read_next me buf r' = (Some x, r'') /\
    forall fuel, (length (tagged i (firstn t f) ++ all_rev_upto i fs) < fuel)%nat ->
      reader_read_all me buf fuel r'' = tagged i (firstn t f) ++ all_rev_upto i fs.
Proof. exact reader_seek_present. Qed.
Print Assumptions C20_two_files_seek_present.

(** A stamp newer than everything in the newest file (e.g. between the files
    and the memory buffer): the reader falls back to the newest end and then
    reads everything. *)
Theorem C20_two_files_seek_newer : forall me buf (fs : list qfile) n f ts,
  0 < me <= buf -> Forall (file_ok me) fs -> length fs = S n ->
  nth_error fs n = Some f -> all_older ts f ->
  exists r', reader_seek_ts me ts (new_reader fs) = (RFellBack, r') /\
    forall fuel, (length (all_rev fs) < fuel)%nat -> reader_read_all me buf fuel r' = all_rev fs.
Proof. exact reader_seek_newer. Qed.
Print Assumptions C20_two_files_seek_newer.

(** C20_seek_absent, the inner class: a stamp strictly between the stamps of
    two neighbouring lines is reported not-found -- never too-early, too-late,
    a position or the depth limit (interval invariant of the binary search:
    both edges are line starts around the boundary between the neighbours, the
    scope halves; once it is empty the newer neighbour is probed twice, which
    is the not-found exit because that line does not start at offset 0). *)
Theorem C20_seek_absent_between : forall me (f : qfile) t l1 t1 l2 t2 ts,
  0 < me -> lines_ok me f -> stamps_nonzero f -> sorted_ts f -> size_ok f ->
  nth_error f t = Some (l1, t1) -> nth_error f (S t) = Some (l2, t2) -> t1 < ts < t2 ->
  seek_ts me f ts = NotFound.
Proof. exact seek_absent_between. Qed.
Print Assumptions C20_seek_absent_between.

(** C20_seek_absent: every absent stamp, by its rank [r] = number of older
    lines: too-early (r = 0), too-late (r = all), not-found (otherwise). *)
Theorem C20_seek_absent : forall me (f : qfile) ts r,
  0 < me -> lines_ok me f -> stamps_nonzero f -> sorted_ts f -> size_ok f -> f <> [] ->
  (r <= length f)%nat ->
  (forall k l t, nth_error f k = Some (l, t) -> (k < r)%nat -> t < ts) ->
  (forall k l t, nth_error f k = Some (l, t) -> (r <= k)%nat -> ts < t) ->
  seek_ts me f ts = if Nat.eqb r 0 then TooEarly else if Nat.eqb r (length f) then TooLate else NotFound.
Proof. exact seek_absent. Qed.
Print Assumptions C20_seek_absent.

Example C20_seek_absent_example :
  let f := [(5, 11); (7, 13); (3, 15); (6, 17)] in
  lines_ok 8 f /\ stamps_nonzero f /\ size_ok f /\
  seek_ts 8 f 12 = NotFound /\ seek_ts 8 f 14 = NotFound /\ seek_ts 8 f 16 = NotFound /\
  seek_ts 8 f 10 = TooEarly /\ seek_ts 8 f 18 = TooLate.
Proof. exact seek_absent_example. Qed.
Print Assumptions C20_seek_absent_example.

(** C20_two_files, not-found part.  The stamp lies strictly between two
    neighbouring lines of file [i]; every newer file lies wholly after it.
    Then qLogReader.seekTS reports not-found, whatever the older files hold:
    it does not fall back to the newest end (no silent rewind:
    [r_fellback] stays false), no file's read position has moved ([poss]),
    the current file is unchanged. *)
Theorem C20_two_files_seek_absent : forall me (fs : list qfile) i f t l1 t1 l2 t2 ts,
  0 < me -> Forall (file_ok me) fs ->
  nth_error fs i = Some f -> sorted_ts f ->
  nth_error f t = Some (l1, t1) -> nth_error f (S t) = Some (l2, t2) -> t1 < ts < t2 ->
  (forall j f', (i < j)%nat -> nth_error fs j = Some f' -> all_newer ts f') ->
  exists r', reader_seek_ts me ts (new_reader fs) = (RNotFound, r') /\
    r_fellback r' = false /\ r_cur r' = r_cur (new_reader fs) /\
    poss r' = poss (new_reader fs) /\ files r' = fs.
Proof. exact reader_seek_absent. Qed.
Print Assumptions C20_two_files_seek_absent.

(** Any reader-level seek that ends in an error moved no read position. *)
Theorem C20_reader_failed_seek_keeps_positions : forall me ts n r res r',
  reader_seek_loop me n ts r = (res, r') -> res = RNotFound \/ res = ROther ->
  poss r' = poss r /\ r_cur r' = r_cur r /\ r_fellback r' = r_fellback r /\ files r' = files r.
Proof. exact reader_seek_loop_failed. Qed.
Print Assumptions C20_reader_failed_seek_keeps_positions.

Example C20_two_files_seek_absent_example :
  let old := [(5, 1); (4, 2)] in
  let cur := [(5, 11); (7, 13); (3, 15)] in
  Forall (file_ok 8) [old; cur] /\
  fst (reader_seek_ts 8 12 (new_reader [old; cur])) = RNotFound /\
  fst (reader_seek_ts 8 14 (new_reader [old; cur])) = RNotFound /\
  fst (reader_seek_ts 8 5 (new_reader [old; cur])) = RFellBack /\
  fst (reader_seek_ts 8 13 (new_reader [old; cur])) = RFound.
Proof. exact reader_absent_example. Qed.
Print Assumptions C20_two_files_seek_absent_example.

(** * Byte level (round 4)

    Model/QLogBytes.v runs the loops of qlogfile.go on the BYTES of a file:
    Seek + Read into the 1.6 MB / 32 KiB buffers, the index-by-index scans for
    a line break (both ways in readProbeLine), the "T" marker search of
    readQLogTimestamp up to the next quote byte; time.Parse is the oracle
    [o].  A file is [flat ls]: the lines [ls], each followed by a line break.
    [absf o ls] is its (length, stamp) view, the input of the theorems above. *)

(** ReadNext on the bytes, for EVERY file of break-free lines (any lengths)
    and every reader state inside the file: it returns the bytes of the span
    the (length, stamp) model returns and leaves the same state. *)
Theorem C20_bytes_read_next_refines : forall o me buf (ls : list bytes) (s : rstate),
  0 < me <= buf -> Forall nlfree ls -> st_ok buf (flat ls) s ->
  b_read_next me buf (flat ls) s =
    (lift_read (flat ls) (fst (read_next me buf (absf o ls) s)), snd (read_next me buf (absf o ls) s))
  /\ st_ok buf (flat ls) (snd (read_next me buf (absf o ls) s)).
Proof. exact b_read_next_refines. Qed.
Print Assumptions C20_bytes_read_next_refines.

(** seekTS on the bytes (probe-line extraction scanning both ways inside the
    32 KiB window, stamp extraction from the line's bytes) = seekTS of the
    (length, stamp) model, for lines shorter than the entry limit: the
    theorems C20_seek_* transfer. *)
Theorem C20_bytes_seek_refines : forall o me (ls : list bytes) ts,
  0 < me -> blines_ok me ls ->
  b_seek_ts o me (flat ls) ts = seek_ts me (absf o ls) ts.
Proof. exact b_seek_ts_refines. Qed.
Print Assumptions C20_bytes_seek_refines.

(** C20_reverse_complete on the bytes: SeekStart, then ReadNext until io.EOF,
    returns the very lines, last first, each once, then io.EOF. *)
Theorem C20_bytes_reverse_complete : forall me buf (ls : list bytes) (s0 : rstate),
  0 < me <= buf -> blines_ok me ls -> 0 <= buf_start s0 ->
  b_read_all me buf (flat ls) (S (length ls)) (b_seek_start (flat ls) s0) = (rev ls, true).
Proof. exact b_reverse_complete. Qed.
Print Assumptions C20_bytes_reverse_complete.

(** C20_seek_present + C20_seek_then_read on the bytes: seeking the stamp
    readQLogTimestamp reads from a stored line finds that line, and the next
    ReadNext returns its bytes. *)
Theorem C20_bytes_seek_present_then_read : forall o me buf (ls : list bytes) k ln (s : rstate),
  0 < me <= buf -> blines_ok me ls ->
  stamps_nonzero (absf o ls) -> sorted_ts (absf o ls) -> size_ok (absf o ls) ->
  nth_error ls k = Some ln -> 0 <= buf_start s ->
  exists d s',
    b_seek_ts_state o me (flat ls) (read_qlog_ts o ln) s = (Found (St (absf o ls) k + blen ln) d, s') /\
    fst (b_read_next me buf (flat ls) s') = Some (ln, St (absf o ls) k).
Proof. exact b_seek_present_then_read. Qed.
Print Assumptions C20_bytes_seek_present_then_read.

(** C20_seek_absent on the bytes. *)
Theorem C20_bytes_seek_absent : forall o me (ls : list bytes) ts r,
  0 < me -> blines_ok me ls ->
  stamps_nonzero (absf o ls) -> sorted_ts (absf o ls) -> size_ok (absf o ls) -> ls <> [] ->
  (r <= length ls)%nat ->
  (forall k ln, nth_error ls k = Some ln -> (k < r)%nat -> read_qlog_ts o ln < ts) ->
  (forall k ln, nth_error ls k = Some ln -> (r <= k)%nat -> ts < read_qlog_ts o ln) ->
  b_seek_ts o me (flat ls) ts =
    if Nat.eqb r 0 then TooEarly else if Nat.eqb r (length ls) then TooLate else NotFound.
Proof. exact b_seek_absent. Qed.
Print Assumptions C20_bytes_seek_absent.

Theorem C20_bytes_seek_failed_keeps_position : forall o me (c : bytes) ts (s : rstate),
  (forall p d, b_seek_ts o me c ts <> Found p d) -> pos (snd (b_seek_ts_state o me c ts s)) = pos s.
Proof. exact b_seek_failed_keeps_position. Qed.
Print Assumptions C20_bytes_seek_failed_keeps_position.

Example C20_bytes_example :
  let ls := [ex_T 1; ex_T 3; ex_T 5] in
  blines_ok 64 ls /\ stamps_nonzero (absf ex_oracle ls) /\ size_ok (absf ex_oracle ls) /\
  map (read_qlog_ts ex_oracle) ls = [1; 3; 5] /\
  b_seek_ts ex_oracle 64 (flat ls) 3 = Found 55 0 /\
  b_seek_ts ex_oracle 64 (flat ls) 4 = NotFound /\
  b_seek_ts ex_oracle 64 (flat ls) 0 = TooEarly /\
  b_seek_ts ex_oracle 64 (flat ls) 6 = TooLate /\
  b_read_all 64 6400 (flat ls) 4 (b_seek_start (flat ls) rstate0) = (rev ls, true).
Proof. exact b_seek_example. Qed.
Print Assumptions C20_bytes_example.

(** * The stamp field of a line json.Marshal wrote

    [encode] is the model of json.Marshal of logEntry (C07's codec, tied to
    the real encoder by C07's correspondence).  readQLogTimestamp takes the
    text after the FIRST occurrence of the marker; whatever the host, client
    id, upstream, rule texts ... hold (marker-like text, a complete decoy
    stamp field, backslashes at the end of a value), that occurrence is the T
    field, because every quote byte inside a value is written behind a
    backslash. *)
Theorem C20_stamp_field_of_marshalled_line : forall (o : bytes -> Z) (e : centry),
  time_text (slot e sT) = true -> slot e sT <> [] ->
  read_qlog_ts o (encode e) = o (slot e sT).
Proof. exact read_qlog_ts_encode. Qed.
Print Assumptions C20_stamp_field_of_marshalled_line.

(** Not a matter of T standing first: any string fields under other keys,
    with any values, may stand before it (legacy files write IP first). *)
Theorem C20_stamp_field_behind_string_fields : forall (kvs : list (bytes * bytes)) post s,
  Forall (fun kv => forallb no34 (fst kv) = true /\ fst kv <> kT) kvs ->
  located (obj (map (fun kv => 34%N :: fst kv ++ 34%N :: 58%N :: quote (snd kv)) kvs ++ fld "T"%string (quote s) :: post)) pT s.
Proof. exact located_T_behind_strings. Qed.
Print Assumptions C20_stamp_field_behind_string_fields.

(** The escaping is what it rests on: with the marker-holding values of
    [decoy_entry] in host / client id / upstream / rule text and a host ending
    in a backslash, the real escaping reads T; a writer copying values as they
    are lets an earlier field capture the stamp. *)
Example C20_stamp_field_decoys :
  let e1 := decoy_entry decoy in
  let e2 := decoy_entry (B "x\"%string) in
  let e3 := decoy_entry (B "\\""T"":""2001-01-01T00:00:00Z"%string) in
  time_text (slot e1 sT) = true /\
  read_qlog_ts ex_o (encode e1) = 1709294400500000000 /\
  read_qlog_ts ex_o (encode e2) = 1709294400500000000 /\
  read_qlog_ts ex_o (encode e3) = 1709294400500000000.
Proof. exact read_qlog_ts_decoys. Qed.
Print Assumptions C20_stamp_field_decoys.

Example C20_stamp_field_unescaped_writer_refuted :
  let line := obj [fld "QH"%string (raw_quote decoy); fld "T"%string (quote (B "2024-03-01T12:00:00.5Z"%string))] in
  read_qlog_ts ex_o line = 978307200000000000.
Proof. exact unescaped_writer_refuted. Qed.
Print Assumptions C20_stamp_field_unescaped_writer_refuted.

(** A marshalled line holds no line break (control characters are escaped),
    so a file of marshalled entries shorter than the entry limit is a file
    the byte-level theorems speak about, with time.Parse of the T fields as
    its stamps. *)
Theorem C20_marshalled_line_no_line_break : forall e, rw_numbers_ok e -> nlfree (encode e).
Proof. exact encode_nlfree. Qed.
Print Assumptions C20_marshalled_line_no_line_break.

Theorem C20_marshalled_file : forall (o : bytes -> Z) me (es : list centry),
  Forall (fun e => rw_numbers_ok e /\ blen (encode e) < me) es ->
  Forall (fun e => time_text (slot e sT) = true /\ slot e sT <> []) es ->
  blines_ok me (map encode es) /\
  absf o (map encode es) = map (fun e => (blen (encode e), o (slot e sT))) es.
Proof. exact encoded_file. Qed.
Print Assumptions C20_marshalled_file.

(** * One reader used for a whole history (round 4)

    [positioned me r exp]: from the state [r] successive ReadNext calls return
    exactly [exp], then io.EOF.  The clause "a failed seek never mis-positions
    subsequent reads", for EVERY reader state (in the middle of a run, inside
    the rotated file, after io.EOF, never positioned), every file contents and
    every target: whatever seekTS did before it reported an error, the reads
    that follow are the reads that would have followed without the seek. *)
Theorem C20_reader_failed_seek_transparent : forall me buf ts (r : reader) res r' exp fuel,
  0 < me <= buf -> positioned me r exp -> reader_seek_ts me ts r = (res, r') ->
  res = RNotFound \/ res = ROther -> (length exp < fuel)%nat ->
  reader_read_all me buf fuel r' = reader_read_all me buf fuel r.
Proof. exact failed_seek_transparent. Qed.
Print Assumptions C20_reader_failed_seek_transparent.

(** Any interleaving of SeekStart / seekTS / ReadNext on one reader over
    non-empty files (each with lines under the limit, non-zero stamps, under
    2^63 bytes): when every operation is one [hspec] describes (SeekStart; a
    read; a seek of a stored stamp; of a stamp after the end of a file; of a
    stamp between two neighbouring lines; of a stamp older than everything),
    the model's observations are the specified ones: the lines returned
    between two positionings are the expected descending run, nothing twice,
    nothing skipped, and failed seeks change nothing. *)
Theorem C20_reader_history : forall me buf (fs : list qfile),
  0 < me <= buf -> Forall (file_ok me) fs -> fs <> [] ->
  forall ops (r : reader) exp bs, files r = fs -> positioned me r exp -> hspec_run fs exp ops bs ->
  hrun me buf r ops = bs.
Proof. exact history_correct. Qed.
Print Assumptions C20_reader_history.

(** The starting point: a reader nobody positioned reads everything but the
    newest file (newQLogReader leaves all positions at 0). *)
Theorem C20_reader_unpositioned : forall me (fs : list qfile), fs <> [] -> Forall (lines_ok me) fs ->
  files (new_reader fs) = fs /\ positioned me (new_reader fs) (all_rev_upto (length fs - 1) fs).
Proof. exact new_reader_positioned. Qed.
Print Assumptions C20_reader_unpositioned.

Example C20_reader_history_example :
  let old := [(5, 1); (4, 3)] in
  let cur := [(5, 11); (7, 13); (3, 15)] in
  let fs := [old; cur] in
  Forall (file_ok 8) fs /\
  hrun 8 800 (new_reader fs)
       [HStart; HRead; HSeek 0; HRead; HSeek 12; HRead; HRead; HSeek 2; HRead; HSeek 5; HRead; HSeek 3; HRead; HRead; HRead]
  = [OStart; ORead (Some (1, 14, 3)); OSeek RNotFound; ORead (Some (1, 6, 7)); OSeek RNotFound;
     ORead (Some (1, 0, 5)); ORead (Some (0, 6, 4)); OSeek RNotFound; ORead (Some (0, 0, 5));
     OSeek RFellBack; ORead (Some (1, 14, 3)); OSeek RFound; ORead (Some (0, 6, 4)); ORead (Some (0, 0, 5)); ORead None].
Proof. exact history_example. Qed.
Print Assumptions C20_reader_history_example.

(** * Round 6: the file on disk (content and metadata); alignment

    Model/QLogDisk.v: a file on disk is its content and its metadata
    (modification time, access time, permission bits).  The reader of the code
    uses Stat only for the size; its model on a disk file is the byte-level
    reader applied to the content.  So the reader's behaviour is a function of
    the bytes only.  This is true by construction of the model; that the CODE
    agrees is what the correspondence under varied metadata checks
    (C20.CMeta cases: modification time at the epoch, before / inside / just
    before the end of / after the stored stamps, access time, read-only files,
    files growing through a second handle). *)
Theorem C20_seek_depends_on_bytes_only : forall o me buf (d1 d2 : disk_file) ts (s : rstate),
  d_content d1 = d_content d2 ->
  d_seek_ts o me d1 ts s = d_seek_ts o me d2 ts s /\
  d_seek_start d1 s = d_seek_start d2 s /\
  d_read_next me buf d1 s = d_read_next me buf d2 s.
Proof. exact seek_depends_on_bytes_only. Qed.
Print Assumptions C20_seek_depends_on_bytes_only.

(** The seek clause on a file on disk: whatever the metadata [m], seeking the
    stamp of a stored line finds it and the next ReadNext returns its bytes;
    an absent stamp is classified by its rank and moves nothing. *)
Theorem C20_seek_present_whatever_metadata : forall o me buf (ls : list bytes) (m : fmeta) k ln (s : rstate),
  0 < me <= buf -> blines_ok me ls ->
  stamps_nonzero (absf o ls) -> sorted_ts (absf o ls) -> size_ok (absf o ls) ->
  nth_error ls k = Some ln -> 0 <= buf_start s ->
  let d := {| d_content := flat ls; d_meta := m |} in
  exists dep s',
    d_seek_ts o me d (read_qlog_ts o ln) s = (Found (St (absf o ls) k + blen ln) dep, s') /\
    fst (d_read_next me buf d s') = Some (ln, St (absf o ls) k).
Proof. exact seek_present_whatever_metadata. Qed.
Print Assumptions C20_seek_present_whatever_metadata.

Theorem C20_seek_absent_whatever_metadata : forall o me (ls : list bytes) (m : fmeta) ts r (s : rstate),
  0 < me -> blines_ok me ls ->
  stamps_nonzero (absf o ls) -> sorted_ts (absf o ls) -> size_ok (absf o ls) -> ls <> [] ->
  (r <= length ls)%nat ->
  (forall k ln, nth_error ls k = Some ln -> (k < r)%nat -> read_qlog_ts o ln < ts) ->
  (forall k ln, nth_error ls k = Some ln -> (r <= k)%nat -> ts < read_qlog_ts o ln) ->
  let d := {| d_content := flat ls; d_meta := m |} in
  fst (d_seek_ts o me d ts s) =
    (if Nat.eqb r 0 then TooEarly else if Nat.eqb r (length ls) then TooLate else NotFound) /\
  pos (snd (d_seek_ts o me d ts s)) = pos s.
Proof. exact seek_absent_whatever_metadata. Qed.
Print Assumptions C20_seek_absent_whatever_metadata.

(** A seekTS that answers too-late from the modification time (wave-6 change
    L) is not a function of the bytes and breaks the seek clause. *)
Theorem C20_mtime_shortcut_refuted :
  exists (d : disk_file) (ts : Z) p dep,
    fst (d_seek_ts ex_oracle 64 d ts rstate0) = Found p dep /\
    fst (d_seek_ts_mtime ex_oracle 64 d ts rstate0) = TooLate /\
    fst (d_seek_ts_mtime ex_oracle 64 {| d_content := d_content d; d_meta := {| m_mtime := 9; m_atime := 9; m_mode := 420 |} |} ts rstate0)
      = Found p dep.
Proof. exact mtime_shortcut_refuted. Qed.
Print Assumptions C20_mtime_shortcut_refuted.

Example C20_disk_example :
  d_content (ex_disk 2) = d_content (ex_disk 9) /\ ex_disk 2 <> ex_disk 9 /\
  d_seek_ts ex_oracle 64 (ex_disk 2) 5 rstate0 = d_seek_ts ex_oracle 64 (ex_disk 9) 5 rstate0 /\
  fst (d_seek_ts ex_oracle 64 (ex_disk 2) 5 rstate0) = Found 83 1.
Proof. exact disk_example. Qed.
Print Assumptions C20_disk_example.

(** Alignment.  C20_bytes_read_next_refines and C20_bytes_reverse_complete
    hold wherever the windows fall.  The placement wave-6 change K needs, as
    an instance (entry limit 4, window 8, file ab, xyz, pqr, one per line):
    the first byte of the first window is the line break in front of a record
    of the greatest length that ends at the re-initialisation threshold.  A
    backward scan that does not examine window byte 0 returns the same NUMBER
    of strings but not the lines. *)
Example C20_alignment_example :
  blines_ok 4 al_ls /\ 8 < blen (flat al_ls) /\
  buf_start (snd (b_read_next 4 8 (flat al_ls) (b_seek_start (flat al_ls) rstate0))) = 2 /\
  nth 2 (flat al_ls) 0%N = nl /\
  b_read_all 4 8 (flat al_ls) 4 (b_seek_start (flat al_ls) rstate0) = (rev al_ls, true).
Proof. exact alignment_example. Qed.
Print Assumptions C20_alignment_example.

Theorem C20_scan_skipping_window_byte_0_refuted :
  exists me buf ls, 0 < me <= buf /\ blines_ok me ls /\
    b_read_all me buf (flat ls) (S (length ls)) (b_seek_start (flat ls) rstate0) = (rev ls, true) /\
    exists got, b_read_all_from1 me buf (flat ls) (S (length ls)) (b_seek_start (flat ls) rstate0) = (got, true) /\
      length got = length ls /\ got <> rev ls.
Proof. exact scan_skipping_window_byte_0_refuted. Qed.
Print Assumptions C20_scan_skipping_window_byte_0_refuted.

(** * Round 7: the T field at any offset of the line

    Lines covered by the stamp-field claim: a one-line JSON object whose
    members before T are string members under other keys, with ANY values of
    ANY length (written with JSON's escaping of quotes), and whose T holds a
    time text.  The marker search of readQLogTimestamp has no length bound:
    wherever T stands, it is read. *)
Theorem C20_stamp_field_at_any_offset : forall (o : bytes -> Z) (kvs : list (bytes * bytes)) t post,
  Forall (fun kv => forallb no34 (fst kv) = true /\ fst kv <> kT) kvs ->
  time_text t = true -> t <> [] ->
  read_qlog_ts o (line_T_behind kvs t post) = o t.
Proof. exact stamp_field_at_any_offset. Qed.
Print Assumptions C20_stamp_field_at_any_offset.

(** ... behind a value of n bytes, for every n (the marker then stands at
    byte n + 9 of the line). *)
Theorem C20_stamp_field_behind_n_bytes : forall (o : bytes -> Z) n t,
  time_text t = true -> t <> [] -> read_qlog_ts o (pad_line n t) = o t.
Proof. exact stamp_field_behind_n_bytes. Qed.
Print Assumptions C20_stamp_field_behind_n_bytes.

(** A reader that looks for the marker in the first 512 bytes only (wave-7
    change M) is refuted with T at byte 599 of a line of 628 bytes: stamp 0,
    and seekTS ends with "record has empty timestamp", which is none of found
    / not found / too early / too late. *)
Theorem C20_stamp_field_bounded_prefix_refuted :
  let line := pad_line 590 ex_t in
  blen line = 628 /\ nlfree line /\
  takeZ (dropZ line 599) 5 = pT /\
  read_qlog_ts ex_o line = 1709294400500000000 /\
  read_qlog_ts_prefix 512 ex_o line = 0 /\
  read_qlog_ts_prefix 512 ex_o (pad_line 100 ex_t) = 1709294400500000000 /\
  b_seek_ts ex_o 16384 (flat [line]) 1709294400500000000 = Found 628 0 /\
  b_seek_ts (fun v => 0) 16384 (flat [line]) 1709294400500000000 = EmptyStamp.
Proof. exact bounded_prefix_refuted. Qed.
Print Assumptions C20_stamp_field_bounded_prefix_refuted.

(** * Round 8: seekRecord and the wall clock

    qLogReader.seekRecord (search.go) = seekTS, then one ReadNext to step
    over the found record unless the reader fell back.  [seek_record_st] is
    Model/QLog.v's [seek_record] with the reader kept on failure. *)
Theorem C20_seek_record_st_is_seek_record : forall me bf older (r : reader),
  seek_record me bf older r =
    (if fst (seek_record_st me bf older r) =? 0 then Some (snd (seek_record_st me bf older r)) else None).
Proof. exact seek_record_st_eq. Qed.
Print Assumptions C20_seek_record_st_is_seek_record.

(** seekRecord to the stamp of a stored record succeeds and the reads that
    follow return the records just older than it, then the older files.  No
    premise relates the stamps to a clock: they may all lie in the future. *)
Theorem C20_seek_record_present : forall me buf (fs : list qfile) i f t l ts,
  0 < me <= buf -> Forall (file_ok me) fs ->
  nth_error fs i = Some f -> sorted_ts f -> nth_error f t = Some (l, ts) ->
  (forall j f', (i < j)%nat -> nth_error fs j = Some f' -> all_newer ts f') ->
  exists r'', seek_record_st me buf (Some ts) (new_reader fs) = (0, r'') /\
    forall fuel, (length (tagged i (firstn t f) ++ all_rev_upto i fs) < fuel)%nat ->
      reader_read_all me buf fuel r'' = tagged i (firstn t f) ++ all_rev_upto i fs.
Proof. exact seek_record_present. Qed.
Print Assumptions C20_seek_record_present.

(** The wall clock is no input of seekRecord.  True by construction of the
    model; the claim about the CODE is the correspondence and the run monitor
    on histories over files whose stamps lie after the wall clock. *)
Theorem C20_seek_record_ignores_clock : forall now1 now2 me bf older (r : reader),
  seek_record_at now1 me bf older r = seek_record_at now2 me bf older r.
Proof. exact seek_record_ignores_clock. Qed.
Print Assumptions C20_seek_record_ignores_clock.

(** A seekRecord that skips the look-up for a cursor later than the clock
    (wave-8 change P) is refuted: records stamped now+1h, +2h, +3h, cursor the
    second: the code goes on with the first, the variant with the third. *)
Theorem C20_seek_record_clock_refuted :
  Forall (file_ok 16384) ex_future /\
  (let (c, r) := seek_record_st 16384 1638400 (Some (ex_now + 2 * hour)) (new_reader ex_future) in
   (c, fst (reader_read_next 16384 1638400 r))) = (0, Some (0, 0, 60)) /\
  (let (c, r) := seek_record_clock ex_now 16384 1638400 (Some (ex_now + 2 * hour)) (new_reader ex_future) in
   (c, fst (reader_read_next 16384 1638400 r))) = (0, Some (0, 132, 80)) /\
  seek_record_clock (ex_now + 4 * hour) 16384 1638400 (Some (ex_now + 2 * hour)) (new_reader ex_future)
    = seek_record_st 16384 1638400 (Some (ex_now + 2 * hour)) (new_reader ex_future).
Proof. exact seek_record_clock_refuted. Qed.
Print Assumptions C20_seek_record_clock_refuted.

(** * Stamps and targets over the whole int64 range (round 9)

    Probed stamp and wanted stamp are int64 Unix nanoseconds (1677 .. 2262).
    seekTS decides with Go's [==] and [>] on them ([go_cmp]); the loop of the
    model is the loop deciding through [go_cmp]; [go_cmp] is the order of the
    unbounded integers for ALL pairs, so the theorems above (stated on Z)
    hold for targets and stamps anywhere in the range, also more than 2^63 ns
    apart. *)
Theorem C20_stamp_decision_is_integer_order : forall a b, go_cmp a b = (a ?= b).
Proof. exact go_cmp_order. Qed.
Print Assumptions C20_stamp_decision_is_integer_order.

Theorem C20_seek_decides_by_stamp_decision : forall fuel me (f : qfile) ts start end_ probe last depth,
  seek_loop_c go_cmp fuel me f ts start end_ probe last depth = seek_loop fuel me f ts start end_ probe last depth.
Proof. exact seek_loop_c_go. Qed.
Print Assumptions C20_seek_decides_by_stamp_decision.

(** Any decision that is the integer order on the pairs (stored stamp,
    target) runs the same search. *)
Theorem C20_seek_same_for_every_order_decision : forall cmp me (f : qfile) ts,
  (forall k l t, nth_error f k = Some (l, t) -> cmp t ts = (t ?= ts)) ->
  seek_ts_c cmp me f ts = seek_ts me f ts.
Proof. exact seek_ts_c_order. Qed.
Print Assumptions C20_seek_same_for_every_order_decision.

(** A decision on the int64 DIFFERENCE of the two stamps is the integer order
    when the difference is an int64, and is NOT for every pair of int64 stamps
    whose difference is none (refuted: [wrap64] is where int64 subtraction
    wraps). *)
Theorem C20_difference_decision_near : forall a b, int64_ok (a - b) -> sub_cmp a b = (a ?= b).
Proof. exact sub_cmp_near. Qed.
Print Assumptions C20_difference_decision_near.

Theorem C20_difference_decision_far_refuted : forall a b,
  int64_ok a -> int64_ok b -> ~ int64_ok (a - b) -> sub_cmp a b <> (a ?= b).
Proof. exact sub_cmp_far. Qed.
Print Assumptions C20_difference_decision_far_refuted.

Example C20_far_target_example :
  int64_ok year_1700 /\ Forall (fun x : Z * Z => int64_ok (snd x)) file_2024 /\
  lines_ok 16384 file_2024 /\ stamps_nonzero file_2024 /\
  seek_ts 16384 file_2024 year_1700 = TooEarly /\
  seek_ts_c go_cmp 16384 file_2024 year_1700 = TooEarly /\
  seek_ts_c sub_cmp 16384 file_2024 year_1700 = TooLate /\
  sub_cmp 1704070800000000000 (1704070800000000000 - 2 ^ 63 + 1) = Gt /\
  sub_cmp 1704070800000000000 (1704070800000000000 - 2 ^ 63) = Lt.
Proof. exact far_target_example. Qed.
Print Assumptions C20_far_target_example.

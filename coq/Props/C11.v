(** C11: every admin endpoint requires a valid session or credentials once a
    user exists.  Only statements here; proofs live in Proofs/AuthHttp.v and
    Proofs/Routes.v (the latter over the generated table Gen/Routes.v). *)
From AGH Require Import Base.Run Model.Session Model.AuthHttp Model.AuthLife Model.AuthMux Proofs.AuthHttp Proofs.AuthCreds Proofs.AuthGlob Proofs.AuthMethod Proofs.AuthReload Proofs.AuthLife Proofs.AuthMux Proofs.Routes Gen.Routes Gen.RoutesMux.
From stdpp Require Import gmap.
Local Open Scope Z_scope.

(** The chain httpRegister puts in front of a handler.  "Does not run [h]" is
    said uniformly in [h]: [blocks W e w r w' a] means that [W h] answers [a]
    and yields the world [w'] for EVERY handler [h], that [w'] has the
    application state of [w], and that [a] is not a handler's answer;
    [runs W e w r w'] means that [W h] is exactly [h] on a world with the same
    application state, for every [h].  [session_effect]: the session table is
    unchanged, or changed by what checkSession does to the presented cookie
    (an expired token is deleted, an accepted one may be refreshed). *)
Theorem C11_chain_guards : forall (A R : Type) (m : bytes) (e : env) (w : world A) (r : request),
  (e_auth_required e = true -> is_public (r_path r) = false -> authenticated e (w_sess w) r = false ->
   exists (w' : world A) (a : answer R),
     blocks (apply_chain (http_register_chain m)) e w r w' a /\
     session_effect e w r w' /\
     (e_first_run e = false -> e_https e = false ->
      a = AStatus 403 \/ a = ARedirect 302 str_login_rel)) /\
  ((exists (w' : world A) (a : answer R),
      blocks (apply_chain (http_register_chain m)) e w r w' a /\ session_effect e w r w') \/
   (exists w' : world A,
      runs (R := R) (apply_chain (http_register_chain m)) e w r w' /\ session_effect e w r w' /\
      r_method r = m /\ (modifies_data m = true -> ctype_ok r = true) /\
      (e_auth_required e = true -> is_public (r_path r) = true \/ authenticated e (w_sess w) r = true))).
Proof. exact (@chain_guards). Qed.
Print Assumptions C11_chain_guards.

(** Any chain with optionalAuth in it refuses, whatever else it contains. *)
Theorem C11_guarded_chain : forall (A R : Type) ws (e : env) (w : world A) (r : request),
  In WOptionalAuth ws ->
  e_auth_required e = true -> is_public (r_path r) = false -> authenticated e (w_sess w) r = false ->
  exists (w' : world A) (a : answer R), blocks (apply_chain ws) e w r w' a /\ session_effect e w r w'.
Proof. exact (@guarded_chain_blocks). Qed.
Print Assumptions C11_guarded_chain.

Example C11_chain_premises_satisfiable :
  authenticated ex_env (w_sess ex_world) (ex_req CNone) = false /\
  is_public (r_path (ex_req CNone)) = false /\
  snd (apply_chain (http_register_chain str_POST) ex_handler ex_env ex_world (ex_req CNone)) = AStatus 403 /\
  snd (apply_chain (http_register_chain str_POST) ex_handler ex_env ex_world (ex_req ex_cookie)) = AHandler tt /\
  snd (apply_chain (http_register_chain str_GET) ex_handler ex_env ex_world (ex_req ex_cookie)) = AStatus 405.
Proof. exact chain_premises_satisfiable. Qed.
Print Assumptions C11_chain_premises_satisfiable.

(** The table extracted from the current source passes the check: every route
    is on the admin mux and is registered through httpRegister (whose two
    registrations are the guarded chain and, for the empty method, the bare
    postInstall used by /dns-query only), or directly with optionalAuth in its
    chain, or is one of the listed exceptions with exactly its chain
    (/control/login, /apple/*.mobileconfig, /dns-query[/], /install.html and
    /control/install/* behind preInstall); no pattern other than the static
    catch-all lies under a public glob; nothing is Unresolved; every
    RegisterFunc value comes from httpRegister; the only other mux is the
    profiling one; every server serves the admin mux. *)
Theorem C11_all_routes_guarded :
  table_ok Gen.Routes.routes Gen.Routes.reg_empty Gen.Routes.reg_method
           Gen.Routes.bindings Gen.Routes.muxes Gen.Routes.servers = true.
Proof. exact all_routes_ok. Qed.
Print Assumptions C11_all_routes_guarded.

(** What passing the check means for each route. *)
Theorem C11_table_sound : forall (A R : Type) rts re rm bs ms ss,
  table_ok rts re rm bs ms ss = true ->
  forall rt, In rt rts ->
    (match rt_kind rt with Unresolved _ => False | _ => True end) /\
    (exception rt = true \/
     forall e (w : world A) r,
       e_auth_required e = true -> is_public (r_path r) = false -> authenticated e (w_sess w) r = false ->
       exists w' (a : answer R), blocks (apply_chain (chain_of rm rt)) e w r w' a /\ session_effect e w r w').
Proof. exact (@table_ok_routes). Qed.
Print Assumptions C11_table_sound.

(** The public globs: exactly /assets/<no slash> and /login.<no slash>. *)
Theorem C11_public_paths : forall p,
  is_public p = true <->
  (exists rest, p = str_assets ++ rest /\ no_slash rest = true) \/
  (exists rest, p = str_login_dot ++ rest /\ no_slash rest = true).
Proof. exact public_paths. Qed.
Print Assumptions C11_public_paths.

(** The globs as path.Match evaluates them (shared model Base/Glob.v): every
    path that isPublicResource accepts is public for the wrapper model, so a
    path the theorems above treat as protected is protected in the code. *)
Theorem C11_public_globs : forall p, glob_public p = Some true -> is_public p = true.
Proof. exact glob_public_is_public. Qed.
Print Assumptions C11_public_globs.

(** ** Start-up: who decides that authentication is on

    optionalAuth computes [authRequired := globalContext.auth != nil &&
    globalContext.auth.authRequired()]: with no Auth object every route is
    served to anybody.  [boot k b] is home.go's [run] around [initUsers] /
    [InitAuth]: [b] says whether users are configured and whether bbolt can
    open data/sessions.db, [k] holds the five syntactic facts tools/routes
    reads off the source ([Gen.Routes.startup]). *)
Theorem C11_startup_fails_closed : forall k b,
  boot_code_ok k = true -> b_users b = true -> b_db_opens b = false -> boot k b = BootFatal.
Proof. exact startup_fails_closed. Qed.
Print Assumptions C11_startup_fails_closed.

(** Users configured: nothing is served, or every unauthenticated request for
    a non-public path is refused by every chain that contains optionalAuth,
    in whatever state the session database was found. *)
Theorem C11_startup_then_guarded : forall (A R : Type) k b,
  boot_code_ok k = true -> b_users b = true ->
  boot k b = BootFatal \/
  forall e ws (w : world A) r,
    env_after (boot k b) e -> In WOptionalAuth ws ->
    is_public (r_path r) = false -> authenticated e (w_sess w) r = false ->
    exists w' (a : answer R), blocks (apply_chain ws) e w r w' a /\ session_effect e w r w'.
Proof. exact (@startup_then_guarded). Qed.
Print Assumptions C11_startup_then_guarded.

Theorem C11_startup_serves_with_auth : forall k b p u,
  boot_code_ok k = true -> boot k b = BootServe p u -> b_db_opens b = true /\ p = true /\ u = b_users b.
Proof. exact startup_serves_with_auth. Qed.
Print Assumptions C11_startup_serves_with_auth.

(** The current source has the five facts. *)
Theorem C11_startup_code : boot_code_ok Gen.Routes.startup = true.
Proof. exact startup_code_ok. Qed.
Print Assumptions C11_startup_code.

(** Each slip (nil error from the failure branch, no stop on the error, no nil
    check) opens every route of a configuration with users. *)
Example C11_startup_slips_refuted :
  let b := {| b_users := true; b_db_opens := false |} in
  Forall (fun k =>
    boot k b = BootServe false false /\
    let e := with_boot false false ex_env in
    env_after (boot k b) e /\
    authenticated e (w_sess ex_world) (ex_req CNone) = false /\
    snd (apply_chain (http_register_chain str_POST) ex_handler e ex_world (ex_req CNone)) = AHandler tt)
  [slip_ret_nil_err; slip_no_fatal; slip_no_nil_check].
Proof. exact startup_slips_refuted. Qed.
Print Assumptions C11_startup_slips_refuted.

Example C11_startup_premises_satisfiable :
  let k := {| bc_nil_checked := true; bc_fail_ret_err := true; bc_run_fatal := true; bc_fatal_exits := true; bc_assigns_ok := true |} in
  boot_code_ok k = true /\
  boot k {| b_users := true; b_db_opens := false |} = BootFatal /\
  boot k {| b_users := true; b_db_opens := true |} = BootServe true true /\
  boot k {| b_users := false; b_db_opens := true |} = BootServe true false /\
  env_after (boot k {| b_users := true; b_db_opens := true |}) ex_env.
Proof. exact startup_premises_satisfiable. Qed.
Print Assumptions C11_startup_premises_satisfiable.

(** ** Round 3: method, headers, findUser

    A request carries its method and, besides Cookie / Authorization /
    Content-Type / Content-Length, an arbitrary list of further headers
    ([r_hdrs]: Origin, Access-Control-Request-Method, X-Requested-With,
    Upgrade, ...).  [same_credentials r r']: same path, session cookie, basic
    credentials, TLS flag and Host check; method and every other header may
    differ.  [blind_before_auth ws]: only postInstall / preInstall / gzip /
    limitRequestBody stand in front of the first optionalAuth of the chain.
    Then the refusal of an unauthenticated request for a non-public path is
    the SAME answer and the same world for [r] and [r']: registered or not
    (OPTIONS, HEAD, PATCH, TRACE, CONNECT, any byte string), the method does
    not matter, and no header other than Cookie / Authorization does. *)
Theorem C11_refusal_method_header_independent :
  forall (A R : Type) ws (e : env) (w : world A) (r r' : request),
  blind_before_auth ws = true -> same_credentials r r' ->
  e_auth_required e = true -> is_public (r_path r) = false -> authenticated e (w_sess w) r = false ->
  exists (w' : world A) (a : answer R),
    blocks (apply_chain ws) e w r w' a /\ blocks (apply_chain ws) e w r' w' a /\ session_effect e w r w'.
Proof. exact (@refusal_method_header_independent). Qed.
Print Assumptions C11_refusal_method_header_independent.

(** The chain of httpRegister: moreover 403 or the redirect to the login page. *)
Theorem C11_chain_refusal_method_header_independent :
  forall (A R : Type) (m : bytes) (e : env) (w : world A) (r r' : request),
  same_credentials r r' ->
  e_auth_required e = true -> is_public (r_path r) = false -> authenticated e (w_sess w) r = false ->
  exists (w' : world A) (a : answer R),
    blocks (apply_chain (http_register_chain m)) e w r w' a /\
    blocks (apply_chain (http_register_chain m)) e w r' w' a /\
    session_effect e w r w' /\
    (e_first_run e = false -> e_https e = false -> a = AStatus 403 \/ a = ARedirect 302 str_login_rel).
Proof. exact (@chain_refusal_method_header_independent). Qed.
Print Assumptions C11_chain_refusal_method_header_independent.

(** Every route of the current source that is not a listed exception has only
    method-blind wrappers in front of optionalAuth (re-checked each run). *)
Theorem C11_routes_refusal_uniform :
  forallb (route_blind Gen.Routes.reg_method) Gen.Routes.routes = true.
Proof. exact all_routes_blind. Qed.
Print Assumptions C11_routes_refusal_uniform.

Example C11_independence_premises_satisfiable :
  same_credentials (ex_req_mh str_GET []) (ex_req_mh str_OPTIONS [hdr_origin]) /\
  blind_before_auth [WPostInstall; WOptionalAuth] = true /\
  blind_before_auth [WPostInstall; WOptionalAuth; WGzip] = true /\
  blind_before_auth [WPostInstall; WEnsure str_GET; WOptionalAuth] = false /\
  Forall (fun r => snd (apply_chain [WPostInstall; WOptionalAuth] ex_handler ex_env ex_world r) = AStatus 403 /\
                   snd (apply_chain (http_register_chain str_GET) ex_handler ex_env ex_world r) = AStatus 403)
    [ex_req_mh str_GET []; ex_req_mh str_OPTIONS [hdr_origin]; ex_req_mh str_CONNECT [hdr_origin]].
Proof. exact independence_premises_satisfiable. Qed.
Print Assumptions C11_independence_premises_satisfiable.

(** findUser is part of the model: [find_user bc us login pw] walks the
    accounts in order and returns the first one whose name is [login] and for
    whose stored hash the bcrypt oracle [bc] answers nil; the oracle may also
    answer "mismatch" or "other error" (stored hash too short, unknown prefix
    or version, cost out of range).  It finds an account exactly when one
    with that name gets the answer nil. *)
Theorem C11_find_user_iff : forall bc us l p,
  (exists u, find_user bc us l p = Some u) <-> (exists h, In (l, h) us /\ bc h p = BcOk).
Proof. exact find_user_iff. Qed.
Print Assumptions C11_find_user_iff.

(** Authenticated only through a session the table accepts now or, without a
    session cookie, through basic credentials for which the oracle says ok. *)
Theorem C11_authenticated_only_if : forall e s r,
  authenticated e s r = true ->
  (exists tok, r_cookie r = CTok tok /\ authenticates (e_ttl e) (e_now e) tok s = true) \/
  (r_cookie r = CNone /\
   exists l p h, r_basic r = BCred l p /\ In (l, h) (e_accounts e) /\ e_bcrypt e h p = BcOk).
Proof. exact authenticated_only_if. Qed.
Print Assumptions C11_authenticated_only_if.

(** An account whose stored hash is unusable (or just different) opens
    nothing, whatever the password. *)
Theorem C11_unusable_hash_refused : forall (A R : Type) ws e (w : world A) r l p,
  In WOptionalAuth ws -> e_auth_required e = true -> is_public (r_path r) = false ->
  r_cookie r = CNone -> r_basic r = BCred l p ->
  (forall h, In (l, h) (e_accounts e) -> e_bcrypt e h p <> BcOk) ->
  exists w' (a : answer R), blocks (apply_chain ws) e w r w' a /\ w_sess w' = w_sess w.
Proof. exact (@unusable_hash_refused). Qed.
Print Assumptions C11_unusable_hash_refused.

(** Accepting every oracle answer but "mismatch" lets any password through
    for an account with a truncated hash; the code's findUser refuses. *)
Example C11_find_user_slip_refuted :
  forall p, find_user_with slip_accepts ex_bad_bcrypt ex_bad_accounts [97]%N p <> None /\
            find_user ex_bad_bcrypt ex_bad_accounts [97]%N p = None.
Proof. exact find_user_slip_refuted. Qed.
Print Assumptions C11_find_user_slip_refuted.

Example C11_unusable_hash_premises_satisfiable :
  let e := {| e_first_run := false; e_auth_present := true; e_accounts := ex_bad_accounts; e_bcrypt := ex_bad_bcrypt;
              e_https := false; e_force_https := false; e_now := 1000; e_ttl := 3600 |} in
  let r := {| r_method := str_GET; r_path := ex_path; r_ctype := []; r_clen := 0; r_cookie := CNone;
              r_basic := BCred [97]%N [120]%N; r_tls := false; r_host_ok := true; r_hdrs := [] |} in
  e_auth_required e = true /\ is_public (r_path r) = false /\
  (forall h, In ([97]%N, h) (e_accounts e) -> e_bcrypt e h [120]%N <> BcOk) /\
  snd (apply_chain (http_register_chain str_GET) ex_handler e ex_world r) = AStatus 403 /\
  snd (apply_chain (http_register_chain str_GET) ex_handler ex_env ex_world
         {| r_method := str_GET; r_path := ex_path; r_ctype := []; r_clen := 0; r_cookie := CNone;
            r_basic := BCred [97]%N [112]%N; r_tls := false; r_host_ok := true; r_hdrs := [] |}) = AHandler tt.
Proof. exact unusable_hash_premises_satisfiable. Qed.
Print Assumptions C11_unusable_hash_premises_satisfiable.

(** ** Round 4: the method token; sessions loaded from sessions.db

    A method is a byte string: net/http hands the token of the request line to
    the handlers as sent ([post], [Post], [pOST], [POSTX] are not [POST]).
    [ensure_gen meq m hl] is control.go's [ensure] with the comparison [meq]
    of the sent method with the declared one as a parameter (the code:
    byte-wise equality, [eqb_bytes]) and a handler [hl] that is told whether
    [globalContext.controlLock] is held while it runs; [ensure m h] is
    [ensure_gen eqb_bytes m (fun _ => h)], [apply_chain_l] is [apply_chain]
    for such handlers.  [blocks_l] / [runs_l] are [blocks] / [runs] for them.

    [ensure] alone, exactly: another method string => 405; the declared,
    modifying method without a JSON content type (or with a content type and
    no body) => 415; otherwise the handler runs, and the lock is held iff the
    declared method is POST, PUT or DELETE. *)
Theorem C11_ensure_gate : forall (A R : Type) (m : bytes) (e : env) (w : world A) (r : request),
  (r_method r <> m /\ blocks_l (R := R) (ensure_gen eqb_bytes m) e w r w (AStatus 405)) \/
  (r_method r = m /\ modifies_data m = true /\ ctype_ok r = false /\
     blocks_l (R := R) (ensure_gen eqb_bytes m) e w r w (AStatus 415)) \/
  (r_method r = m /\ (modifies_data m = true -> ctype_ok r = true) /\
     runs_l (R := R) (ensure_gen eqb_bytes m) e w r w (modifies_data m)).
Proof. exact (@ensure_gate). Qed.
Print Assumptions C11_ensure_gate.

(** The chain of httpRegister in front of a handler that sees the lock: it
    answers by itself or runs the handler; if it runs it, the method is the
    declared one, a modifying method came with JSON, the control lock is held
    exactly for POST / PUT / DELETE, and the request is authenticated or the
    path public. *)
Theorem C11_chain_method_gate : forall (A R : Type) (m : bytes) (e : env) (w : world A) (r : request),
  let W := fun hl : bool -> handler A R => apply_chain_l (http_register_chain m) hl false in
  (exists w' a, blocks_l W e w r w' a /\ session_effect e w r w') \/
  (exists w', runs_l W e w r w' (modifies_data m) /\ session_effect e w r w' /\
     r_method r = m /\ (modifies_data m = true -> ctype_ok r = true) /\
     (e_auth_required e = true -> is_public (r_path r) = true \/ authenticated e (w_sess w) r = true)).
Proof. exact (@chain_method_gate). Qed.
Print Assumptions C11_chain_method_gate.

(** Authentication does not mask the method gate: for a request that
    postInstall and optionalAuth hand on ([passes_auth]: no first run, no
    HTTPS server, not /login.html, and authenticated / public path / no user),
    the answer of the chain is decided by method and content type alone. *)
Theorem C11_chain_gate_exact : forall (A R : Type) (m : bytes) (e : env) (w : world A) (r : request),
  passes_auth e w r ->
  let W := fun hl : bool -> handler A R => apply_chain_l (http_register_chain m) hl false in
  exists w', session_effect e w r w' /\
    ((r_method r <> m /\ blocks_l W e w r w' (AStatus 405)) \/
     (r_method r = m /\ modifies_data m = true /\ ctype_ok r = false /\ blocks_l W e w r w' (AStatus 415)) \/
     (r_method r = m /\ (modifies_data m = true -> ctype_ok r = true) /\ runs_l W e w r w' (modifies_data m))).
Proof. exact (@chain_gate_exact). Qed.
Print Assumptions C11_chain_gate_exact.

(** Every method string other than the declared one, sent with valid
    credentials: 405, the handler does not run.  In particular every case
    variant of the declared method. *)
Theorem C11_other_method_refused : forall (A R : Type) (m : bytes) (e : env) (w : world A) (r : request),
  passes_auth e w r -> r_method r <> m ->
  exists w', blocks (R := R) (apply_chain (http_register_chain m)) e w r w' (AStatus 405) /\ session_effect e w r w'.
Proof. exact (@chain_other_method_405). Qed.
Print Assumptions C11_other_method_refused.

Theorem C11_case_variant_refused : forall (A R : Type) (m : bytes) (e : env) (w : world A) (r : request),
  passes_auth e w r -> equal_fold (r_method r) m = true -> r_method r <> m ->
  exists w', blocks (R := R) (apply_chain (http_register_chain m)) e w r w' (AStatus 405) /\ session_effect e w r w'.
Proof. exact (@chain_case_variant_405). Qed.
Print Assumptions C11_case_variant_refused.

(** A handler that ignores the lock flag: the flagged chain is the plain one
    (so the theorems of the earlier rounds speak about the same function). *)
Theorem C11_flagged_chain_is_chain : forall (A R : Type) ws (h : handler A R) b e w r,
  apply_chain_l ws (fun _ => h) b e w r = apply_chain ws h e w r.
Proof. exact (@apply_chain_l_const). Qed.
Print Assumptions C11_flagged_chain_is_chain.

(** The lenient comparison ([strings.EqualFold], [modifiesData] left on the
    raw spelling) is refuted: [post] + text/plain + a valid cookie runs the
    handler of a POST route, outside the lock; the code answers 405. *)
Example C11_ensure_fold_refuted :
  let r := ex_req_m str_post str_text_plain in
  r_method r <> str_POST /\ equal_fold (r_method r) str_POST = true /\ ctype_ok r = false /\
  authenticated ex_env (w_sess ex_world) r = true /\
  snd (apply_chain_l (http_register_chain str_POST) ex_handler_l false ex_env ex_world r) = AStatus 405 /\
  (forall (A R : Type) (hl : bool -> handler A R) e w, ensure_gen equal_fold str_POST hl e w r = hl false e w r) /\
  slip_fold_chain str_POST ex_handler_l ex_env ex_world r =
    ({| w_app := 1%nat; w_sess := w_sess ex_world |}, AHandler tt).
Proof. exact ensure_fold_refuted. Qed.
Print Assumptions C11_ensure_fold_refuted.

Example C11_gate_premises_satisfiable :
  passes_auth ex_env ex_world (ex_req_m str_POST str_json) /\
  apply_chain_l (http_register_chain str_POST) ex_handler_l false ex_env ex_world (ex_req_m str_POST str_json) =
    ({| w_app := 2%nat; w_sess := w_sess ex_world |}, AHandler tt) /\
  snd (apply_chain_l (http_register_chain str_POST) ex_handler_l false ex_env ex_world (ex_req_m str_POST str_text_plain)) = AStatus 415 /\
  Forall (fun m => snd (apply_chain_l (http_register_chain str_POST) ex_handler_l false ex_env ex_world (ex_req_m m str_json)) = AStatus 405)
    [str_post; str_Post; str_pOST; str_POSTX; str_GET; []] /\
  apply_chain_l (http_register_chain str_GET) ex_handler_l false ex_env ex_world (ex_req_m str_GET str_text_plain) =
    ({| w_app := 1%nat; w_sess := w_sess ex_world |}, AHandler tt).
Proof. exact gate_premises_satisfiable. Qed.
Print Assumptions C11_gate_premises_satisfiable.

(** Every method-bound route of the current source is declared with GET,
    POST, PUT or DELETE (re-checked each run), so "not GET" and "has the JSON
    gate and the lock" coincide for the routes of the source. *)
Theorem C11_routes_methods_canonical : forallb route_method_ok Gen.Routes.routes = true.
Proof. exact all_routes_methods_canonical. Qed.
Print Assumptions C11_routes_methods_canonical.

Theorem C11_canonical_method_gate : forall m,
  canonical_method m = true -> (modifies_data m = false <-> m = str_GET).
Proof. exact canonical_method_gate. Qed.
Print Assumptions C11_canonical_method_gate.

(** Sessions that came into the table through InitAuth -> loadSessions
    ([restart] of Model/Session.v): a cookie authenticates exactly when it is
    the lower-case hex spelling of a stored token whose OWN record was
    unexpired at the load and is unexpired now, whatever its neighbours in the
    bucket are. *)
Theorem C11_reloaded_authenticates : forall ttl now0 t tok st,
  authenticates ttl t tok (restart now0 st) = true <->
  exists raw s, tok = hex_encode raw /\ ss_disk st !! raw = Some s /\
                (u32 now0 < s_expire s)%N /\ (u32 t < s_expire s)%N.
Proof. exact reloaded_authenticates. Qed.
Print Assumptions C11_reloaded_authenticates.

(** Hence a cookie whose own stored record has run out is refused by every
    chain containing optionalAuth. *)
Theorem C11_reloaded_expired_refused : forall (A R : Type) ws e (w : world A) r tok st0 now0,
  In WOptionalAuth ws -> e_auth_required e = true -> is_public (r_path r) = false ->
  w_sess w = restart now0 st0 -> r_cookie r = CTok tok ->
  (forall raw s, hex_encode raw = tok -> ss_disk st0 !! raw = Some s -> (s_expire s <= u32 (e_now e))%N) ->
  exists w' (a : answer R), blocks (apply_chain ws) e w r w' a /\ session_effect e w r w'.
Proof. exact (@reloaded_expired_refused). Qed.
Print Assumptions C11_reloaded_expired_refused.

(** A loader whose entries share one decoded value (each then carries the
    expiry of the record decoded last) accepts the run-out cookie. *)
Example C11_reload_shared_refuted :
  let st := stored (list_to_map ex_recs) in
  authenticates 3600 1003 (hex_encode [0]%N) (restart 1000 st) = false /\
  authenticates 3600 1003 (hex_encode [1]%N) (restart 1000 st) = true /\
  authenticates 3600 1003 (hex_encode [0]%N) (restart_shared 1000 ex_recs) = true.
Proof. exact reload_shared_refuted. Qed.
Print Assumptions C11_reload_shared_refuted.

Example C11_reloaded_premises_satisfiable :
  let st0 := stored (list_to_map ex_recs) in
  let w := {| w_app := 0%nat; w_sess := restart 1000 st0 |} in
  e_auth_required ex_reload_env = true /\ is_public (r_path (ex_req (CTok (hex_encode [0]%N)))) = false /\
  (forall raw s, hex_encode raw = hex_encode [0]%N -> ss_disk st0 !! raw = Some s -> (s_expire s <= u32 (e_now ex_reload_env))%N) /\
  snd (apply_chain (http_register_chain str_POST) ex_handler ex_reload_env w (ex_req (CTok (hex_encode [0]%N)))) = AStatus 403 /\
  snd (apply_chain (http_register_chain str_POST) ex_handler ex_reload_env w (ex_req (CTok (hex_encode [1]%N)))) = AHandler tt.
Proof. exact reloaded_premises_satisfiable. Qed.
Print Assumptions C11_reloaded_premises_satisfiable.

(** * Round 5 (I): the account set across saves and restarts

    [life]: the users: list of the configuration file and the running
    process (firstRun, Auth.users, config.Users); operations [OBoot] (run()
    up to web.start: detectFirstRun, parseConfig, the start-up save,
    initUsers), [OConfigure] (the body of handleInstallConfigure with each of
    its outcomes), [OWrite] (config.write, succeeding or not), [OStop].
    [ul] is usersList, [k] the start-up facts of round 2. *)

(** The code's usersList returns the list ([make] of the full length, then
    [copy]); with a zero length nothing is copied. *)
Theorem C11_users_list_is_copy : forall us, users_list us = us.
Proof. exact users_list_id. Qed.
Print Assumptions C11_users_list_is_copy.

(** A successful save puts exactly the accounts of the running process into
    the file, along any history. *)
Theorem C11_saved_users_are_memory_users : forall ul k, (forall us, ul us = us) ->
  forall f ops p us,
  let st := run_ops ul k {| l_file := f; l_proc := None |} ops in
  l_proc st = Some p -> p_auth p = Some us -> l_file (do_write ul true st) = Some us.
Proof. exact saved_users_are_memory_users. Qed.
Print Assumptions C11_saved_users_are_memory_users.

(** The next start after a stop has exactly the accounts of the file. *)
Theorem C11_boot_restores_users : forall ul k fus,
  exists p, l_proc (do_boot ul k true true {| l_file := Some fus; l_proc := None |}) = Some p /\
            p_auth p = Some fus /\ p_first_run p = false /\
            l_file (do_boot ul k true true {| l_file := Some fus; l_proc := None |}) = Some fus.
Proof. exact boot_restores_users. Qed.
Print Assumptions C11_boot_restores_users.

(** Once the file lists an account: after ANY history (saves that succeed or
    fail, stops and starts with the session database in any state, further
    runs of the wizard's handler with any outcome) a process that serves
    requests requires authentication. *)
Theorem C11_persisted_then_required : forall ul k, (forall us, ul us = us) -> boot_code_ok k = true ->
  forall st ops p e, inv st -> persisted st ->
  l_proc (run_ops ul k st ops) = Some p -> env_of p e -> e_auth_required e = true.
Proof. exact persisted_then_required. Qed.
Print Assumptions C11_persisted_then_required.

(** From nothing: any history in which the wizard completed once.  Every
    chain with optionalAuth in it refuses every unauthenticated request for a
    non-public path in whatever process is running at the end. *)
Theorem C11_admin_survives_save_restart : forall ul k, (forall us, ul us = us) -> boot_code_ok k = true ->
  forall (A R : Type) f ops1 n h ops2 p e ws (w : world A) r,
  l_proc (run_ops ul k {| l_file := f; l_proc := None |} ops1) <> None ->
  l_proc (run_ops ul k {| l_file := f; l_proc := None |} (ops1 ++ OConfigure n h CfgOk :: ops2)) = Some p ->
  env_of p e -> In WOptionalAuth ws ->
  is_public (r_path r) = false -> authenticated e (w_sess w) r = false ->
  exists w' (a : answer R), blocks (apply_chain ws) e w r w' a /\ session_effect e w r w'.
Proof. exact created_then_guarded. Qed.
Print Assumptions C11_admin_survives_save_restart.

Theorem C11_configured_stays_guarded : forall ul k, (forall us, ul us = us) -> boot_code_ok k = true ->
  forall (A R : Type) u fus ops p e ws (w : world A) r,
  l_proc (run_ops ul k {| l_file := Some (u :: fus); l_proc := None |} ops) = Some p ->
  env_of p e -> In WOptionalAuth ws ->
  is_public (r_path r) = false -> authenticated e (w_sess w) r = false ->
  exists w' (a : answer R), blocks (apply_chain ws) e w r w' a /\ session_effect e w r w'.
Proof. exact configured_then_guarded. Qed.
Print Assumptions C11_configured_stays_guarded.

Example C11_life_premises_satisfiable :
  boot_code_ok ok_code = true /\
  l_proc (run_ops users_list ok_code life0 [OBoot true true]) <> None /\
  run_ops users_list ok_code life0 ex_history =
    {| l_file := Some [ex_admin];
       l_proc := Some {| p_first_run := false; p_auth := Some [ex_admin]; p_conf_users := [] |} |} /\
  match final_env users_list ex_history with
  | Some e => e_auth_required e = true /\
              snd (apply_chain (http_register_chain str_GET) ex_handler e ex_world anon_get) = AStatus 403
  | None => False
  end.
Proof. exact life_premises_satisfiable. Qed.
Print Assumptions C11_life_premises_satisfiable.

(** A usersList that returns an empty copy ([make] with length 0): refused
    as long as the process runs; [users: []] in the file after the wizard's
    own save; after the restart the anonymous GET reaches the handler. *)
Example C11_life_empty_writer_refuted :
  let ul := users_list_gen (fun _ => 0%nat) in
  match final_env ul [OBoot true true; OConfigure (fst ex_admin) (snd ex_admin) CfgOk] with
  | Some e => snd (apply_chain (http_register_chain str_GET) ex_handler e ex_world anon_get) = AStatus 403
  | None => False
  end /\
  run_ops ul ok_code life0 ex_history =
    {| l_file := Some []; l_proc := Some {| p_first_run := false; p_auth := Some []; p_conf_users := [] |} |} /\
  match final_env ul ex_history with
  | Some e => e_auth_required e = false /\
              authenticated e (w_sess ex_world) anon_get = false /\
              snd (apply_chain (http_register_chain str_GET) ex_handler e ex_world anon_get) = AHandler tt
  | None => False
  end.
Proof. exact life_empty_writer_refuted. Qed.
Print Assumptions C11_life_empty_writer_refuted.

(** * Round 5 (J): built in one world, called in another

    A wrapper constructor gets the world at the time it is called (when the
    route is registered) and returns a handler, which gets the world at the
    time of the request.  The constructors of the code use the second only. *)
Theorem C11_wrappers_read_state_at_request_time : forall (A R : Type) x,
  request_time (A := A) (R := R) (apply_wrapper_at x).
Proof. exact (@wrappers_read_state_at_request_time). Qed.
Print Assumptions C11_wrappers_read_state_at_request_time.

Theorem C11_chain_built_anywhere : forall (A R : Type) ws ew1 ew2 (h : handler A R),
  apply_chain_at ws ew1 h = apply_chain_at ws ew2 h.
Proof. exact (@chain_built_anywhere). Qed.
Print Assumptions C11_chain_built_anywhere.

(** Any chain of constructors that read the state at request time only. *)
Theorem C11_chain_request_time : forall (A R : Type) (Ws : list (@wrapper_at A R)),
  Forall request_time Ws -> forall ew1 ew2 h, chain_at Ws ew1 h = chain_at Ws ew2 h.
Proof. exact (@chain_request_time). Qed.
Print Assumptions C11_chain_request_time.

(** The first start: the wizard's routes are built while firstRun is true.
    Once it is false, in the same process, without re-registration, a chain
    that starts with preInstall answers 403 and runs nothing, whatever
    follows in the chain and whatever the request. *)
Theorem C11_install_chain_closed_after_setup : forall (A R : Type) ws ew e (w : world A) r,
  e_first_run e = false -> blocks (apply_chain_at (A:=A) (R:=R) (WPreInstall :: ws) ew) e w r w (AStatus 403).
Proof. exact (@pre_install_chain_closed). Qed.
Print Assumptions C11_install_chain_closed_after_setup.

(** ... and a chain with optionalAuth in it, built before the account
    existed, refuses once it exists. *)
Theorem C11_guarded_chain_built_anywhere : forall (A R : Type) ws ew e (w : world A) r,
  In WOptionalAuth ws ->
  e_auth_required e = true -> is_public (r_path r) = false -> authenticated e (w_sess w) r = false ->
  exists w' (a : answer R), blocks (apply_chain_at ws ew) e w r w' a /\ session_effect e w r w'.
Proof. exact (@guarded_chain_built_anywhere). Qed.
Print Assumptions C11_guarded_chain_built_anywhere.

Example C11_transition_premises_satisfiable :
  e_first_run ex_env = false /\ e_auth_required ex_env = true /\
  snd (apply_chain_at [WPreInstall; WEnsure str_POST] env_first_run ex_handler env_first_run ex_world anon_post_configure) = AHandler tt /\
  snd (apply_chain_at [WPreInstall; WEnsure str_POST] env_first_run ex_handler ex_env ex_world anon_post_configure) = AStatus 403.
Proof. exact transition_premises_satisfiable. Qed.
Print Assumptions C11_transition_premises_satisfiable.

(** A preInstall (an optionalAuth) that decides when it is built: the
    wizard's configure call (a guarded GET) stays open after the wizard has
    completed in the process that was started for it. *)
Example C11_wrap_time_decision_refuted :
  ~ request_time (@pre_install_at_wrap nat unit) /\
  authenticated ex_env (w_sess ex_world) anon_post_configure = false /\
  snd (chain_at [pre_install_at_wrap; apply_wrapper_at (WEnsure str_POST)] env_first_run ex_handler
         ex_env ex_world anon_post_configure) = AHandler tt /\
  snd (chain_at [apply_wrapper_at WPostInstall; optional_auth_at_wrap; apply_wrapper_at (WEnsure str_GET)] env_first_run ex_handler
         ex_env ex_world anon_get) = AHandler tt /\
  snd (apply_chain_at (http_register_chain str_GET) env_first_run ex_handler ex_env ex_world anon_get) = AStatus 403.
Proof. exact wrap_time_decision_refuted. Qed.
Print Assumptions C11_wrap_time_decision_refuted.

(** The routes of the current source after set-up (re-checked each run): a
    pattern of the wizard (/install.html, /control/install/...) has a chain
    that starts with preInstall; every other route is one of the five open
    ones (login, the two mobileconfig generators, /dns-query[/]) with exactly
    its chain, or starts with preInstall, or is guarded. *)
Theorem C11_routes_after_setup :
  forallb (route_after_setup_ok Gen.Routes.reg_method) Gen.Routes.routes = true.
Proof. exact all_routes_after_setup. Qed.
Print Assumptions C11_routes_after_setup.

Theorem C11_routes_after_setup_sound : forall (A R : Type) rm rt,
  route_after_setup_ok rm rt = true ->
  (install_pattern rt = false /\ open_exception rt = true) \/
  (forall ew e (w : world A) r, e_first_run e = false ->
     blocks (apply_chain_at (A:=A) (R:=R) (chain_of rm rt) ew) e w r w (AStatus 403)) \/
  (forall ew e (w : world A) r,
     e_auth_required e = true -> is_public (r_path r) = false -> authenticated e (w_sess w) r = false ->
     exists w' (a : answer R), blocks (apply_chain_at (chain_of rm rt) ew) e w r w' a /\ session_effect e w r w').
Proof. exact (@after_setup_sound). Qed.
Print Assumptions C11_routes_after_setup_sound.

(** The wrapper constructors of the current source (postInstall, preInstall,
    optionalAuth, ensure and their other forms) mention no package-level
    variable and call nothing but each other outside the function literals
    they return (tools/routes, re-checked each run): what the model's
    [apply_wrapper_at] assumes. *)
Theorem C11_wrappers_code : wrappers_lazy_ok Gen.Routes.wrappers_lazy = true.
Proof. exact wrappers_code_ok. Qed.
Print Assumptions C11_wrappers_code.

(** The wizard's last call in the current source has the skeleton the model's
    [do_configure] follows, and globalContext.firstRun has no writer besides
    it and setupContext (tools/routes, re-checked each run). *)
Theorem C11_configure_code : configure_code_ok Gen.Routes.configure_code = true.
Proof. exact configure_code_is_ok. Qed.
Print Assumptions C11_configure_code.

(** * Round 6: which mux a server serves, and paths nobody declared *)

(** Whatever a ServeMux serves is one of the registrations it carries, and
    the pattern of that registration matches the path: for every list of
    registrations and every (clean) path. *)
Theorem C11_mux_serves_registered : forall (X : Type) (regs : list (bytes * X)) path p x,
  mux_find regs path = FServe p x -> In (p, x) regs /\ pat_matches p path = true.
Proof. exact (@find_serves_registered). Qed.
Print Assumptions C11_mux_serves_registered.

(** Default-deny: a path that no registered pattern other than "/" matches is
    answered by a registration of "/" or by nobody (404). *)
Theorem C11_mux_default_deny : forall (X : Type) (regs : list (bytes * X)) path,
  undeclared (map fst regs) path = true ->
  (exists x, In (str_root, x) regs /\ mux_find regs path = FServe str_root x) \/ mux_find regs path = FNone.
Proof. exact (@find_undeclared). Qed.
Print Assumptions C11_mux_default_deny.

(** Every server of the current source (tools/routes, Gen/RoutesMux.v,
    re-checked each run) serves a mux whose every write in the module is
    [http.NewServeMux()]: the admin mux [globalContext.mux] (at least one
    server serves it), or the profiling server's own mux on the loopback
    address, started only under [http.pprof.enabled]; no mux of the module is
    handed to foreign code except that one to golibs' RoutePprof; the module
    does not mention [http.DefaultServeMux]. *)
Theorem C11_admin_muxes_private :
  mux_table_ok Gen.RoutesMux.mux_rows Gen.RoutesMux.mux_escapes Gen.RoutesMux.default_mentions Gen.RoutesMux.pprof_guarded = true.
Proof. exact all_muxes_private. Qed.
Print Assumptions C11_admin_muxes_private.

Theorem C11_mux_table_sound : forall rows escapes mentions g,
  mux_table_ok rows escapes mentions g = true ->
  (forall row, In row rows -> mr_kind row = MuxFresh) /\
  (exists row, In row rows /\ mr_mux row = str_mux_global) /\
  (forall m callee p fn, In (m, callee, p, fn) escapes -> m <> str_mux_global) /\
  mentions = [].
Proof. exact mux_table_ok_sound. Qed.
Print Assumptions C11_mux_table_sound.

(** ... hence carries exactly what the module declares on it, whatever the
    init functions of linked packages ([foreign]) have put on the
    process-global default mux. *)
Theorem C11_server_muxes_carry_declared_only : forall (X : Type) row,
  In row Gen.RoutesMux.mux_rows ->
  forall declared foreign : list (bytes * X), mux_content (mr_kind row) declared foreign = Some declared.
Proof. exact (@gen_muxes_serve_declared). Qed.
Print Assumptions C11_server_muxes_carry_declared_only.

(** The declared table of the current source on such a mux, in front of ANY
    handlers: once an administrator exists, an unauthenticated request for a
    path that is not public and that no declared pattern other than "/"
    matches is answered 404 or refused by the wrappers of the "/" route; no
    handler's answer comes back and the application state is untouched. *)
Theorem C11_undeclared_path_not_served : forall (A R : Type) (hs : route -> handler A R) e (w : world A) r,
  undeclared (map rt_pattern Gen.Routes.routes) (r_path r) = true ->
  e_auth_required e = true -> is_public (r_path r) = false -> authenticated e (w_sess w) r = false ->
  exists w' a, mux_serve (route_regs Gen.Routes.reg_method hs Gen.Routes.routes) e w r = (w', a) /\
    w_app w' = w_app w /\ not_handler a /\ session_effect e w r w'.
Proof. exact (@gen_undeclared_not_served). Qed.
Print Assumptions C11_undeclared_path_not_served.

(** The same for any table that passes the route check. *)
Theorem C11_undeclared_path_not_served_any_table : forall (A R : Type) re rm rts bs ms ss (hs : route -> handler A R) e (w : world A) r,
  table_ok rts re rm bs ms ss = true ->
  undeclared (map rt_pattern rts) (r_path r) = true ->
  e_auth_required e = true -> is_public (r_path r) = false -> authenticated e (w_sess w) r = false ->
  exists w' a, mux_serve (route_regs rm hs rts) e w r = (w', a) /\
    w_app w' = w_app w /\ not_handler a /\ session_effect e w r w'.
Proof. exact (@undeclared_path_not_served). Qed.
Print Assumptions C11_undeclared_path_not_served_any_table.

Example C11_undeclared_premises_satisfiable :
  undeclared (map rt_pattern Gen.Routes.routes) p_pprof_heap = true /\
  undeclared (map rt_pattern Gen.Routes.routes) [47;100;101;98;117;103;47;118;97;114;115]%N = true /\
  undeclared (map rt_pattern Gen.Routes.routes) p_status = false.
Proof. exact gen_undeclared_ex. Qed.
Print Assumptions C11_undeclared_premises_satisfiable.

Example C11_undeclared_example :
  table_ok [ex_static; ex_status] [WPostInstall] ex_rm [] [] [] = true /\
  undeclared (map rt_pattern [ex_static; ex_status]) p_pprof_heap = true /\
  undeclared (map rt_pattern [ex_static; ex_status]) p_status = false /\
  e_auth_required ex_env = true /\ is_public p_pprof_heap = false /\
  authenticated ex_env s_init (ex_anon p_pprof_heap) = false /\
  mux_serve (route_regs ex_rm (fun _ => ex_h) [ex_static; ex_status]) ex_env ex_w (ex_anon p_pprof_heap) = (ex_w, AStatus 403).
Proof. exact undeclared_ex. Qed.
Print Assumptions C11_undeclared_example.

(** Refuted variant: the same declared table on [http.DefaultServeMux] (or
    behind a Server with a nil Handler), on which net/http/pprof's init has
    registered "/debug/pprof/": every declared route keeps its wrappers and
    its answers, and the anonymous GET /debug/pprof/heap reaches the profile
    handler. *)
Theorem C11_default_mux_refuted :
  exists (foreign : list (bytes * handler unit bool)) regs,
    mux_content MuxDefault (route_regs ex_rm (fun _ => ex_h) [ex_static; ex_status]) foreign = Some regs /\
    mux_content MuxNil (route_regs ex_rm (fun _ => ex_h) [ex_static; ex_status]) foreign = Some regs /\
    e_auth_required ex_env = true /\
    authenticated ex_env s_init (ex_anon p_pprof_heap) = false /\
    mux_serve regs ex_env ex_w (ex_anon p_pprof_heap) = (ex_w, AHandler true) /\
    mux_serve regs ex_env ex_w (ex_anon p_status) = (ex_w, AStatus 403).
Proof. exact default_mux_refuted. Qed.
Print Assumptions C11_default_mux_refuted.

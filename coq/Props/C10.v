(** C10: DHCPv4 never leases one address to two clients; the lease table
    survives a restart.  Only statements here; proofs live in Proofs/Dhcp4.v.

    [run c h empty_state] is the state after any history [h] (a list of
    (clock reading, addresses that answer the ICMP probe at that moment,
    operation): DISCOVER, REQUEST, DECLINE, RELEASE, static add / update /
    remove, time passing, restart) from the empty table.

    [hist_ok h] (and [op_ok o] for one operation) is what is assumed of the
    operations: hardware addresses (in messages and reservations) have 6, 8
    or 20 bytes, the lengths the lease file can hold ([valid_mac]), and
    neither a message nor a reservation uses the all-zero hardware address,
    which the server keeps for block-listed addresses ([live m]: [m] is not
    all-zero). *)
From Coq Require Import List ZArith NArith Permutation.
From AGH Require Import Base.Run Model.Dhcp4 Proofs.Dhcp4 Proofs.Dhcp4Names Proofs.Dhcp4Disk Proofs.Dhcp4Alloc.
From AGH Require Import Model.Dhcp4Admin Proofs.Dhcp4Admin.
From AGH Require Model.Dhcp4Bitset Proofs.Dhcp4Bitset.
From AGH Require Import Model.Dhcp4Expiry Proofs.Dhcp4Expiry.
Import ListNotations.
Local Open Scope N_scope.

(** The invariant, in every reachable state: addresses pairwise distinct
    (block-listed ones included); clients pairwise distinct; every dynamic
    address (block-listed ones included) inside the pool, not the gateway,
    not a static lease's address; static addresses inside the subnet and not
    the gateway; the address index, the leased-offset set and the hostname
    index describe the list exactly; the file lists no address and no client
    twice; every lease carries a hardware address the lease file can hold. *)
Theorem C10_inv_reachable : forall c h, valid_conf c -> hist_ok h ->
  let s := run c h empty_state in
  NoDup (map l_ip (leases s)) /\ NoDup (filter live (map l_mac (leases s))) /\
  (forall l, In l (leases s) -> l_static l = false ->
     in_pool c (l_ip l) = true /\ l_ip l <> c_gw c /\
     forall r, In r (leases s) -> l_static r = true -> l_ip r <> l_ip l) /\
  (forall l, In l (leases s) -> l_static l = true ->
     in_subnet c (l_ip l) = true /\ l_ip l <> c_gw c) /\
  (forall ip, iidx (ix s) ip = true <-> In ip (map l_ip (leases s))) /\
  (forall o, offs (ix s) o = true <->
     In (c_start c + o) (map l_ip (leases s)) /\ c_start c + o <= c_end c) /\
  (forall h ip, hidx (ix s) h = Some ip <->
     h <> [] /\ exists l, In l (leases s) /\ l_ip l = ip /\ l_host l = h) /\
  NoDup (map l_ip (disk s)) /\ NoDup (filter live (map l_mac (disk s))) /\
  (forall l, In l (leases s) -> mac_ok l).
Proof. exact inv_reachable_expanded. Qed.
Print Assumptions C10_inv_reachable.

(** Among the leases reported as active at any instant (static, or dynamic,
    not expired and not block-listed): one holder per address and one lease
    per client. *)
Theorem C10_one_holder : forall c h now, hist_ok h ->
  let s := run c h empty_state in
  forall l1 l2, In l1 (active now s) -> In l2 (active now s) ->
  (l_ip l1 = l_ip l2 \/ (l_mac l1 = l_mac l2 /\ is_blocklisted (l_mac l1) = false)) -> l1 = l2.
Proof. exact one_holder_reachable. Qed.
Print Assumptions C10_one_holder.

(** Any reply carrying an address to a client that has a static lease
    carries the reserved address. *)
Theorem C10_reservation_respected : forall c h now busy o s' mt yi mac r, hist_ok h -> op_ok o ->
  let s := run c h empty_state in
  step c s now busy o = (s', ROk mt yi) -> yi <> 0 -> op_mac o = Some mac ->
  In r (leases s') -> l_static r = true -> l_mac r = mac -> yi = l_ip r.
Proof. exact reservation_reachable. Qed.
Print Assumptions C10_reservation_respected.

(** DISCOVER from a client without a lease, while some pool address is in no
    lease (block-list entries are leases) and does not answer the probe:
    OFFER (message type 2) of a pool address that was in no lease and does
    not answer the probe, now reserved for that client. *)
Theorem C10_offer_liveness : forall c h now busy mac ip, hist_ok h -> valid_mac mac = true ->
  let s := run c h empty_state in
  ~ In mac (map l_mac (leases s)) ->
  in_pool c ip = true -> ~ In ip (map l_ip (leases s)) -> mem_ip ip busy = false ->
  exists ip' s', step c s now busy (ODiscover mac) = (s', ROk 2 ip') /\
    in_pool c ip' = true /\ ~ In ip' (map l_ip (leases s)) /\ mem_ip ip' busy = false /\
    exists l, In l (leases s') /\ l_ip l = ip' /\ l_mac l = mac.
Proof. exact liveness_reachable. Qed.
Print Assumptions C10_offer_liveness.

(** Address conflicts: whatever a DISCOVER from a client without a lease is
    answered with, the address did not answer the probe. *)
Theorem C10_conflict_not_offered : forall c h now busy mac s' mt yi, hist_ok h -> valid_mac mac = true ->
  let s := run c h empty_state in
  ~ In mac (map l_mac (leases s)) ->
  step c s now busy (ODiscover mac) = (s', ROk mt yi) -> mem_ip yi busy = false.
Proof. exact discover_not_busy_reachable. Qed.
Print Assumptions C10_conflict_not_offered.

(** The file written by a store lists exactly the leases in memory, each
    once (expiry at whole seconds, none for static leases). *)
Theorem C10_store_exact : forall s, Permutation (disk (store s)) (map db_lease (leases s)).
Proof. exact store_exact. Qed.
Print Assumptions C10_store_exact.

(** Persistence: after a store and a restart the table holds the same leases
    (each once, expiry at whole seconds; block-list entries are kept with
    their expiry like any dynamic lease) and HostByIP / IPByHost answer the
    same, in every reachable state. *)
Theorem C10_persistence : forall c h, hist_ok h ->
  let s := run c h empty_state in
  let s' := restart c (store s) in
  Permutation (leases s') (map db_lease (leases s)) /\
  (forall h, ip_by_host s' h = ip_by_host s h) /\
  (forall ip, host_by_ip s' ip = host_by_ip s ip).
Proof. exact persistence_full. Qed.
Print Assumptions C10_persistence.

(** On the way: the names of dynamic leases are fixed points of the
    re-validation done on reload (validHostnameForClient is idempotent and
    generated names are valid), in every reachable state. *)
Theorem C10_names_stable : forall c h, NamesStable (leases (run c h empty_state)).
Proof. exact names_stable_reachable. Qed.
Print Assumptions C10_names_stable.

(** After every operation of any history (every prefix of a history is a
    history) the file lists exactly the leases in memory, each once: every
    path that changes the table ends in a store. *)
Theorem C10_file_current : forall c h, hist_ok h ->
  let s := run c h empty_state in
  Permutation (disk s) (map db_lease (leases s)).
Proof. exact file_current_reachable. Qed.
Print Assumptions C10_file_current.

(** The one path of the model that returns after a change without storing
    (UpdateStaticLease: old lease removed, addLease fails) cannot be taken
    from a state that satisfies the invariant. *)
Theorem C10_update_no_late_failure : forall c mac ip host s fi found h s1,
  FullInv c s -> live mac = true ->
  find_lease mac (leases s) = Some (fi, found) ->
  validate_static c mac ip host s = Some h ->
  rm_lease c (l_ip found) (l_mac found) (l_host found) s = Some s1 ->
  exists s2, add_lease c (Lease ip mac h true exp_zero) s1 = Some s2.
Proof. exact static_update_no_late_failure. Qed.
Print Assumptions C10_update_no_late_failure.

(** Reservations, as (address, hardware address, hostname), change only
    through the static-lease operations: messages and the passing of time
    leave them exactly as they are in any state, a restart in any reachable
    state restores the same ones. *)
Theorem C10_static_only_via_api : forall c h now busy o, hist_ok h ->
  let s := run c h empty_state in
  static_op o = false ->
  Permutation (statics (leases (fst (step c s now busy o)))) (statics (leases s)).
Proof. exact static_only_via_api. Qed.
Print Assumptions C10_static_only_via_api.

Theorem C10_messages_keep_statics : forall c s now busy o,
  static_op o = false -> o <> ORestart ->
  statics (leases (fst (step c s now busy o))) = statics (leases s).
Proof. exact message_keeps_statics. Qed.
Print Assumptions C10_messages_keep_statics.

(** The same for the replacement address handed out on DECLINE (the declined
    address itself is released, not block-listed: the code leaves it to the
    probe). *)
Theorem C10_decline_conflict_not_offered : forall c s now busy mac reqip ci s' mt yi,
  Inv c s -> valid_mac mac = true ->
  decline c now busy mac reqip ci s = (s', ROk mt yi) -> yi <> 0 -> mem_ip yi busy = false.
Proof. exact decline_not_busy. Qed.
Print Assumptions C10_decline_conflict_not_offered.

(** The allocateLease loop of the model (reserve, probe, block-list, again)
    is bounded by the free pool offsets plus the expired leases: no operation
    ever ends in the model's "out of fuel" answer, whatever the state, the
    clock and the probe answers (lease times are unsigned in the code). *)
Theorem C10_allocate_terminates : forall c s now busy o,
  (0 <= c_lease c)%Z -> snd (step c s now busy o) <> RFuel.
Proof. exact step_never_fuel. Qed.
Print Assumptions C10_allocate_terminates.

(** Expiry edge: at the very instant of its deadline a dynamic lease is no
    longer reported as active and not yet recycled; one nanosecond later it
    is recycled (both comparisons in the code are strict). *)
Theorem C10_deadline_instant : forall l s,
  l_static l = false -> In l (leases s) ->
  expired (l_exp l) l = false /\ ~ In l (active (l_exp l) s) /\ expired (l_exp l + 1) l = true.
Proof. exact deadline_instant. Qed.
Print Assumptions C10_deadline_instant.

(** Pool exhausted: the lease handed on is the first expired dynamic lease
    of the table, never a static one, never one that has not expired. *)
Theorem C10_recycled_is_first_expired : forall c now mac s i,
  next_ip c s = None -> snd (reserve c now mac s) = RsAt i ->
  exists l, nth_error (leases s) i = Some l /\ expired now l = true /\
    forall j l', (j < i)%nat -> nth_error (leases s) j = Some l' -> expired now l' = false.
Proof. exact recycled_is_first_expired. Qed.
Print Assumptions C10_recycled_is_first_expired.

(** Clients with hardware addresses of different lengths: an 8-byte client
    whose address starts with another client's six bytes recycles an expired
    lease and holds it under its own address (before repair 58b961b the lease
    carried the other client's address). *)
Example C10_mixed_history_ok :
  hist_ok mixed_history /\
  map l_mac (leases (run example_conf mixed_history empty_state)) =
    [mac6 1; 18446744073709617159; mac6 3; mac6 4].
Proof. exact mixed_history_ok. Qed.

(** The configurations the server runs with are the ones Validate accepts
    (start < end, gateway outside the pool, both ends inside the subnet: the
    harness compares [valid_conf_b (conf_of ...)] with the real Validate on
    generated configurations); they satisfy the premise [valid_conf] above. *)
Theorem C10_validated_conf : forall c, valid_conf_b c = true <-> valid_conf c.
Proof. exact valid_conf_b_spec. Qed.
Print Assumptions C10_validated_conf.

(** set_config (new, empty servers; table reloaded from the file) with a
    configuration that keeps the gateway: the state satisfies the invariant
    of the new configuration; with the same configuration it is a restart,
    so the persistence, file and reservation theorems above apply.  From
    there [C10_inv_from] carries the invariant along any further history. *)
Theorem C10_set_config_inv : forall c c' s,
  c_gw c' = c_gw c -> Inv c s -> FullInv c' (set_config c' s).
Proof. exact set_config_full. Qed.
Print Assumptions C10_set_config_inv.

Theorem C10_set_config_same : forall c s, set_config c s = restart c s.
Proof. exact set_config_same. Qed.
Print Assumptions C10_set_config_same.

Theorem C10_inv_from : forall c h s, hist_ok h -> FullInv c s -> FullInv c (run c h s).
Proof. exact run_full. Qed.
Print Assumptions C10_inv_from.

(** Non-vacuity: a valid configuration and a history (the first pool address
    answers the probe and is block-listed) that reaches a table with a
    block-list entry, a static lease, two dynamic leases with names, a free
    pool address that does not answer the probe and a client without a
    lease; the premises of the theorems above hold there. *)
Example C10_premises_satisfiable :
  valid_conf example_conf /\ hist_ok example_history /\
  valid_mac (mac6 9) = true /\ is_blocklisted (mac6 9) = false /\
  let s := run example_conf example_history empty_state in
  length (leases s) = 4%nat /\
  NamesStable (leases s) /\
  (exists l, In l (leases s) /\ l_static l = true) /\
  (exists l, In l (leases s) /\ is_blocklisted (l_mac l) = true) /\
  (exists l, In l (active example_now s) /\ l_static l = false) /\
  ~ In (mac6 9) (map l_mac (leases s)) /\
  (exists ip, in_pool example_conf ip = true /\ ~ In ip (map l_ip (leases s)) /\
              mem_ip ip [167772166] = false) /\
  (exists s' mt yi r, step example_conf s example_now [] (ODiscover (mac6 2)) = (s', ROk mt yi) /\
     yi <> 0 /\ In r (leases s') /\ l_static r = true /\ l_mac r = mac6 2).
Proof. exact premises_satisfiable. Qed.

(** * The DHCP service and its HTTP admin operations (Model/Dhcp4Admin.v)

    [wrun dir h (create dir y no_files)] is the service after any history [h]
    (messages, static-lease requests, time, set_config, reset, reset_leases,
    status, process restarts) from a process start in the empty data
    directory [dir] with the DHCP section [y] of the configuration file.
    [whist_ok gw h]: [op_ok] for the messages and static-lease requests, and
    every set_config keeps the gateway [gw]; [yaml_ok gw y]: so do the
    settings of the configuration file. *)

(** The database path is a component of the service's state that no
    operation changes: over every history it is the lease file of the data
    directory the process was started with (and the service's DataDir field
    is empty throughout: the path cannot be derived from it again). *)
Theorem C10_db_path_constant : forall dir y fs h,
  let w := wrun dir h (create dir y fs) in
  sc_db_path (w_sc w) = join_path dir data_filename /\ sc_data_dir (w_sc w) = [].
Proof. exact path_constant. Qed.
Print Assumptions C10_db_path_constant.

Theorem C10_db_path_step : forall dir w now busy o,
  o <> WRestart -> o <> WOp ORestart ->
  sc_db_path (w_sc (fst (wstep dir w now busy o))) = sc_db_path (w_sc w) /\
  sc_data_dir (w_sc (fst (wstep dir w now busy o))) = sc_data_dir (w_sc w).
Proof. exact wstep_path_same. Qed.
Print Assumptions C10_db_path_step.

(** In every reachable state of a configured service the table satisfies the
    invariant of its current settings, and the file it stores to is the lease
    file of the data directory. *)
Theorem C10_admin_inv_reachable : forall dir gw y h c,
  yaml_ok gw y -> whist_ok gw h ->
  let w := wrun dir h (create dir y no_files) in
  w_v4 w = Some c -> FullInv c (st_of w) /\ disk (st_of w) = data_file dir w.
Proof. exact table_inv_reachable. Qed.
Print Assumptions C10_admin_inv_reachable.

(** After every operation of every such history a process start (from the
    data directory and the configuration file as the service last wrote it)
    restores the same table, each lease once (expiry at whole seconds), and
    the same HostByIP / IPByHost answers. *)
Theorem C10_restart_restores : forall dir gw y h,
  yaml_ok gw y -> whist_ok gw h ->
  let w := wrun dir h (create dir y no_files) in
  let w' := create dir (w_yaml w) (w_fs w) in
  same_table (w_leases w') (w_leases w) /\
  (forall n, ip_by_host (st_of w') n = ip_by_host (st_of w) n) /\
  (forall ip, host_by_ip (st_of w') ip = host_by_ip (st_of w) ip).
Proof. exact restart_restores_reachable. Qed.
Print Assumptions C10_restart_restores.

(** "The lease file of the data directory lists exactly the table, each lease
    once" is kept by every operation from any state that satisfies the
    invariant; for a set_config provided the settings are the current ones or
    the file lists nothing (a set_config to a pool that cannot hold some
    lease of the file drops it from the table and leaves it in the file until
    the next store).  In particular by a reset. *)
Theorem C10_disk_is_memory_step : forall dir gw w now busy o,
  WInv dir gw w -> wop_ok gw o -> DiskIsMemory dir w ->
  match o with WSetConfig c' => w_v4 w = Some c' \/ data_file dir w = [] | _ => True end ->
  DiskIsMemory dir (fst (wstep dir w now busy o)).
Proof. exact wstep_disk_is_memory. Qed.
Print Assumptions C10_disk_is_memory_step.

Theorem C10_reset_keeps_agreement : forall dir gw y h now busy,
  yaml_ok gw y -> whist_ok gw h ->
  let w := wrun dir h (create dir y no_files) in
  DiskIsMemory dir (fst (wstep dir w now busy WReset)).
Proof. exact reset_keeps_agreement_reachable. Qed.
Print Assumptions C10_reset_keeps_agreement.

(** reset, then set_config with any settings Validate accepts, then any
    history of messages, static-lease requests, resets, reset_leases and
    restarts: the lease file of the data directory lists exactly the table,
    and a process start restores the same table and the same answers. *)
Theorem C10_restart_after_reset : forall dir gw y h0 c' h now busy now' busy',
  yaml_ok gw y -> whist_ok gw h0 -> c_gw c' = gw -> valid_conf_b c' = true ->
  whist_ok gw h -> no_reconf h ->
  let w0 := wrun dir h0 (create dir y no_files) in
  let w1 := fst (wstep dir w0 now busy WReset) in
  let w2 := fst (wstep dir w1 now' busy' (WSetConfig c')) in
  let w := wrun dir h w2 in
  w_v4 w2 = Some c' /\ w_leases w2 = [] /\
  DiskIsMemory dir w /\
  let w' := create dir (w_yaml w) (w_fs w) in
  same_table (w_leases w') (w_leases w) /\
  (forall n, ip_by_host (st_of w') n = ip_by_host (st_of w) n) /\
  (forall ip, host_by_ip (st_of w') ip = host_by_ip (st_of w) ip).
Proof. exact restart_after_reset. Qed.
Print Assumptions C10_restart_after_reset.

(** Non-vacuity: settings, a history with a lease, a reset, a set_config and
    a reservation; at the end the table holds the reservation and the lease
    file of the data directory lists it. *)
Example C10_admin_premises_satisfiable :
  yaml_ok (c_gw example_conf) ex_yaml /\ whist_ok (c_gw example_conf) ex_history /\
  valid_conf_b example_conf = true /\
  let w := wrun ex_dir ex_history (create ex_dir ex_yaml no_files) in
  w_v4 w = Some example_conf /\ length (w_leases w) = 1%nat /\
  length (data_file ex_dir w) = 1%nat /\ sc_db_path (w_sc w) = db_of ex_dir.
Proof. exact admin_premises_satisfiable. Qed.

(** * The leased-offset set as the code keeps it (bitset.go, Model/Dhcp4Bitset.v)

    Bit [n] lives in the 64-bit word [n / 64] of a sparse map at position
    [n mod 64]; written with [word |= 1 << bit] / [word &^= 1 << bit], read
    with [word & (1 << bit) != 0].  Read through [is_set] this is the abstract
    set of offsets the lease-table model uses ([offs], updated with [upd]):
    for all indices, the bit written reads back and every other bit, of the
    same word or of another, is unchanged; a new set is empty; a nil set is
    empty and ignores writes; every stored word fits 64 bits (so the code's
    uint64 arithmetic never truncates). *)
Theorem C10_bitset_set_is_set : forall s n v,
  s <> None -> Dhcp4Bitset.is_set (Dhcp4Bitset.set s n v) n = v.
Proof. exact Proofs.Dhcp4Bitset.set_is_set. Qed.
Print Assumptions C10_bitset_set_is_set.

Theorem C10_bitset_other_bits_unchanged : forall s n v m,
  m <> n -> Dhcp4Bitset.is_set (Dhcp4Bitset.set s n v) m = Dhcp4Bitset.is_set s m.
Proof. exact Proofs.Dhcp4Bitset.set_other. Qed.
Print Assumptions C10_bitset_other_bits_unchanged.

Theorem C10_bitset_refines_offsets : forall s n v m,
  s <> None ->
  Proofs.Dhcp4Bitset.abs (Dhcp4Bitset.set s n v) m = upd (Proofs.Dhcp4Bitset.abs s) n v m.
Proof. exact Proofs.Dhcp4Bitset.set_refines_upd. Qed.
Print Assumptions C10_bitset_refines_offsets.

Theorem C10_bitset_new_is_empty : forall m,
  Proofs.Dhcp4Bitset.abs Dhcp4Bitset.new_bitset m = offs empty_index m.
Proof. exact Proofs.Dhcp4Bitset.new_refines_empty. Qed.
Print Assumptions C10_bitset_new_is_empty.

Theorem C10_bitset_nil_ignores_writes : forall n v m,
  Dhcp4Bitset.is_set (Dhcp4Bitset.set None n v) m = false.
Proof. exact Proofs.Dhcp4Bitset.nil_is_empty. Qed.
Print Assumptions C10_bitset_nil_ignores_writes.

Theorem C10_bitset_words_fit : forall s n v,
  Proofs.Dhcp4Bitset.wf s -> Proofs.Dhcp4Bitset.wf (Dhcp4Bitset.set s n v).
Proof. exact Proofs.Dhcp4Bitset.wf_set. Qed.
Print Assumptions C10_bitset_words_fit.

Example C10_bitset_example :
  let s := Dhcp4Bitset.set (Dhcp4Bitset.set (Dhcp4Bitset.set (Dhcp4Bitset.set (Dhcp4Bitset.set
             Dhcp4Bitset.new_bitset 0 true) 63 true) 64 true) 130 true) 63 false in
  Dhcp4Bitset.is_set s 0 = true /\ Dhcp4Bitset.is_set s 63 = false /\ Dhcp4Bitset.is_set s 64 = true /\
  Dhcp4Bitset.is_set s 130 = true /\ Dhcp4Bitset.is_set s 1 = false /\ Dhcp4Bitset.is_set s 128 = false /\
  s <> None.
Proof. exact Proofs.Dhcp4Bitset.bitset_example. Qed.

(** * The expiry in the lease file is an instant (db.go fromLease / toLease, Model/Dhcp4Expiry.v)

    [zone] is the offset from UTC (seconds) of the time zone of the process
    that writes the file: fromLease writes the local wall-clock reading at
    whole seconds with its offset, toLease subtracts the offset again.  The
    offset cancels: whatever the zone of the writer (and of the reader), what
    is read back is the expiry at whole seconds, rounded down (less than a
    second lost, never a later instant), which is what [db_lease] says in
    every theorem about restarts above.  The variant "local wall clock
    labelled Z" shifts every expiry by the offset: refuted, five hours west
    of UTC a lease with an hour left reads back as expired. *)
Theorem C10_expiry_roundtrip_any_zone : forall zone e,
  read_expiry (write_expiry zone e) = trunc_s e.
Proof. exact expiry_roundtrip_any_zone. Qed.
Print Assumptions C10_expiry_roundtrip_any_zone.

Theorem C10_expiry_resolution : forall zone e,
  let e' := read_expiry (write_expiry zone e) in (e' <= e < e' + ns_per_s)%Z.
Proof. exact expiry_resolution. Qed.
Print Assumptions C10_expiry_resolution.

Theorem C10_db_lease_any_zone : forall zone l,
  l_static l = false -> l_exp (db_lease l) = read_expiry (write_expiry zone (l_exp l)).
Proof. exact db_lease_any_zone. Qed.
Print Assumptions C10_db_lease_any_zone.

Theorem C10_expiry_local_as_z_refuted :
  exists zone e now, (now < e)%Z /\ (read_expiry (write_expiry_local_as_z zone e) < now)%Z /\
                     read_expiry (write_expiry_local_as_z zone e) <> trunc_s e.
Proof. exact local_as_z_roundtrip_refuted. Qed.
Print Assumptions C10_expiry_local_as_z_refuted.

Example C10_expiry_example :
  write_expiry 19800 1790000000123456789 = (1790019800, 19800)%Z /\
  read_expiry (write_expiry 19800 1790000000123456789) = 1790000000000000000%Z.
Proof. exact expiry_example. Qed.

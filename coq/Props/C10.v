(** C10 (statements only; proofs in Proofs/Dhcp4.v).  Work in progress. *)
From AGH Require Import Model.Dhcp4.
